import CorsVerif.Spec.Browser
import CorsVerif.Proofs.ACRH
import CorsVerif.Proofs.Sets
/-
  String-level facts about what a browser extracts from the list-valued headers of a preflight
  response, and about the request-header list it sends.
-/
namespace Cors
open Gen Headers
namespace Browser

/-! ### `unsafeNames`: sorted, unique, the lower-cased names -/

theorem insertUnique_spec (a : Bytes) (l : List Bytes) (hl : StrictSorted l) :
    StrictSorted (insertUnique a l) ∧ ∀ x, x ∈ insertUnique a l ↔ x = a ∨ x ∈ l := by
  unfold insertUnique
  by_cases hc : l.contains a = true
  · rw [if_pos hc]
    refine ⟨hl, fun x => ?_⟩
    constructor
    · exact Or.inr
    · rintro (rfl | h)
      · exact List.contains_iff_mem.mp hc
      · exact h
  · rw [if_neg hc]
    have hx : a ∉ l := fun h => hc (List.contains_iff_mem.mpr h)
    exact ⟨insertSorted_sorted hl hx, fun x => insertSorted_mem⟩

theorem foldr_insertUnique (l : List Bytes) :
    StrictSorted (l.foldr insertUnique []) ∧ ∀ x, x ∈ l.foldr insertUnique [] ↔ x ∈ l := by
  induction l with
  | nil => exact ⟨List.Pairwise.nil, fun x => Iff.rfl⟩
  | cons a t ih =>
    simp only [List.foldr_cons]
    obtain ⟨h1, h2⟩ := insertUnique_spec a _ ih.1
    refine ⟨h1, fun x => ?_⟩
    rw [h2, ih.2, List.mem_cons]

theorem unsafeNames_spec (i : Intent) :
    StrictSorted (unsafeNames i) ∧ ∀ x, x ∈ unsafeNames i ↔ x ∈ i.headerNames.map Bytes.lower :=
  foldr_insertUnique _

/-! ### tokens -/

theorem tchar_not_comma {b : Nat} (h : isTchar b = true) : b ≠ comma := by
  intro hb; subst hb; revert h; decide

theorem tchar_not_ows {b : Nat} (h : isTchar b = true) : isOWS b = false := by
  cases ho : isOWS b with
  | false => rfl
  | true =>
    simp only [isOWS, Bool.or_eq_true, beq_iff_eq] at ho
    rcases ho with rfl | rfl <;> revert h <;> decide

theorem valid_ne_nil {t : Bytes} (h : isValid t = true) : t ≠ [] := by
  intro ht; subst ht; revert h; decide

theorem valid_tchar {t : Bytes} (h : isValid t = true) : ∀ b ∈ t, isTchar b = true := by
  simp only [isValid, Bool.and_eq_true, List.all_eq_true] at h
  exact h.2

theorem valid_no_comma {t : Bytes} (h : isValid t = true) : comma ∉ t :=
  fun hc => tchar_not_comma (valid_tchar h _ hc) rfl

/-! ### `stripOWS` -/

def stripL (s : Bytes) : Bytes := s.dropWhile isOWS
def stripR (s : Bytes) : Bytes := (s.reverse.dropWhile isOWS).reverse

theorem stripOWS_eq (e : Bytes) : stripOWS e = stripR (stripL e) := rfl

theorem stripL_cons_ows {b : Nat} (s : Bytes) (h : isOWS b = true) : stripL (b :: s) = stripL s := by
  simp [stripL, List.dropWhile, h]

theorem stripL_id {t : Bytes} (h : t.head?.any isOWS = false) : stripL t = t := by
  cases t with
  | nil => rfl
  | cons b s =>
    simp only [List.head?_cons, Option.any_some] at h
    simp [stripL, List.dropWhile, h]

theorem stripR_snoc_ows {b : Nat} (s : Bytes) (h : isOWS b = true) : stripR (s ++ [b]) = stripR s := by
  simp [stripR, List.dropWhile, h]

theorem stripR_id {t : Bytes} (h : t.getLast?.any isOWS = false) : stripR t = t := by
  unfold stripR
  have : t.reverse.dropWhile isOWS = t.reverse := by
    cases hr : t.reverse with
    | nil => rfl
    | cons b s =>
      have hl : t.getLast? = some b := by
        rw [← List.head?_reverse, hr]; rfl
      rw [hl] at h
      simp only [Option.any_some] at h
      simp [List.dropWhile, h]
  rw [this, List.reverse_reverse]

theorem stripOWS_token {t : Bytes} (h : isValid t = true) : stripOWS t = t := by
  have hne := valid_ne_nil h
  have htc := valid_tchar h
  rw [stripOWS_eq, stripL_id, stripR_id]
  · cases hl : t.getLast? with
    | none => rfl
    | some b => simp [tchar_not_ows (htc b (List.mem_of_getLast? hl))]
  · cases t with
    | nil => rfl
    | cons b s => simp [tchar_not_ows (htc b List.mem_cons_self)]

/-- `dropOneOWS` removes at most one OWS byte. -/
theorem dropOne_decomp (s : Bytes) : ∃ pre, s = pre ++ Spec.dropOneOWS s ∧ (pre = [] ∨ ∃ b, isOWS b = true ∧ pre = [b]) := by
  cases s with
  | nil => exact ⟨[], rfl, Or.inl rfl⟩
  | cons b t =>
    by_cases hb : isOWS b = true
    · exact ⟨[b], by simp [Spec.dropOneOWS, hb], Or.inr ⟨b, hb, rfl⟩⟩
    · exact ⟨[], by simp [Spec.dropOneOWS, hb], Or.inl rfl⟩

/-- A tolerated element is its name with at most one OWS byte on each side. -/
theorem elem_decomp {e t : Bytes} (h : Spec.elem e = some t) :
    ∃ pre suf, e = pre ++ t ++ suf ∧ (pre = [] ∨ ∃ b, isOWS b = true ∧ pre = [b]) ∧
      (suf = [] ∨ ∃ b, isOWS b = true ∧ suf = [b]) ∧ t.head?.any isOWS = false ∧ t.getLast?.any isOWS = false := by
  unfold Spec.elem at h
  simp only [] at h
  split at h
  · cases h
  · rename_i hc
    simp only [Option.some.injEq] at h
    simp only [Bool.or_eq_true, not_or, Bool.not_eq_true] at hc
    obtain ⟨p1, h1, hp1⟩ := dropOne_decomp e.reverse
    obtain ⟨p2, h2, hp2⟩ := dropOne_decomp (Spec.dropOneOWS e.reverse).reverse
    rw [h] at h2
    refine ⟨p2, p1.reverse, ?_, hp2, ?_, by rw [← h]; exact hc.1, by rw [← h]; exact hc.2⟩
    · have := congrArg List.reverse h1
      rw [List.reverse_reverse, List.reverse_append, h2] at this
      rw [this]
    · rcases hp1 with rfl | ⟨b, hb, rfl⟩
      · exact Or.inl rfl
      · exact Or.inr ⟨b, hb, rfl⟩

/-- What the browser strips from a tolerated element is exactly its name. -/
theorem elem_strip {e t : Bytes} (h : Spec.elem e = some t) : stripOWS e = t := by
  obtain ⟨pre, suf, rfl, hpre, hsuf, hh, hl⟩ := elem_decomp h
  rw [stripOWS_eq]
  have h1 : stripL (pre ++ t ++ suf) = stripL (t ++ suf) := by
    rcases hpre with rfl | ⟨b, hb, rfl⟩
    · simp
    · simp only [List.append_assoc, List.singleton_append]
      exact stripL_cons_ows _ hb
  rw [h1]
  cases t with
  | nil =>
    rcases hsuf with rfl | ⟨b, hb, rfl⟩
    · rfl
    · simp [stripL, stripR, List.dropWhile, hb]
  | cons c s =>
    have h2 : stripL (c :: s ++ suf) = c :: s ++ suf := by
      apply stripL_id
      simpa using hh
    rw [h2]
    rcases hsuf with rfl | ⟨b, hb, rfl⟩
    · rw [List.append_nil]; exact stripR_id hl
    · rw [stripR_snoc_ows _ hb]; exact stripR_id hl

theorem names_strip {es ns : List Bytes} (h : Spec.names es = some ns) : es.map stripOWS = ns := by
  induction es generalizing ns with
  | nil => simp [Spec.names] at h; subst h; rfl
  | cons e es ih =>
    simp only [Spec.names] at h
    cases he : Spec.elem e with
    | none => simp [he] at h
    | some n =>
      cases hn : Spec.names es with
      | none => simp [he, hn] at h
      | some ns' =>
        simp only [he, hn, Option.some.injEq] at h
        subst h
        simp only [List.map_cons, elem_strip he, ih hn]

end Browser
end Cors

namespace Cors
open Gen Headers
namespace Browser

/-! ### "extract header list values" -/

/-- If every element of the field lines is tolerated, the browser extracts the non-empty names. -/
theorem extract_of_names (h : HdrMap) (name : Bytes) (lines ns : List Bytes) (hh : h name = some lines)
    (hnames : Spec.names (Spec.elements lines) = some ns)
    (hvalid : ∀ n ∈ ns, n ≠ [] → isValid n = true) :
    extractList h name = some (ns.filter (fun n => !n.isEmpty)) := by
  unfold extractList
  rw [hh]
  simp only []
  have : (lines.flatMap (Bytes.splitOn 44)).map stripOWS = ns := names_strip hnames
  rw [this]
  rw [if_pos]
  simp only [List.all_eq_true, List.mem_filter]
  rintro n ⟨hn, hne⟩
  apply hvalid n hn
  intro h0; subst h0; simp at hne

theorem extract_none (h : HdrMap) (name : Bytes) (hh : h name = none) : extractList h name = some [] := by
  unfold extractList; rw [hh]

theorem valid_no_ows {t : Bytes} (h : isValid t = true) : ∀ b ∈ t, isOWS b = false :=
  fun b hb => tchar_not_ows (valid_tchar h b hb)

/-- A single token value. -/
theorem extract_token (h : HdrMap) (name t : Bytes) (hh : h name = some [t]) (ht : isValid t = true) :
    extractList h name = some [t] := by
  have hel : Spec.elements [t] = [t] := by
    simp [Spec.elements, ACRH.splitOn_no_comma (valid_no_comma ht)]
  have := extract_of_names h name [t] [t] hh (by rw [hel]; exact ACRH.names_plain [t] (fun e he b hb => by
      simp only [List.mem_singleton] at he; subst he; exact valid_no_ows ht b hb))
    (fun n hn _ => by simp only [List.mem_singleton] at hn; subst hn; exact ht)
  rw [this]
  have hne := valid_ne_nil ht
  cases t with
  | nil => exact absurd rfl hne
  | cons c s => rfl

theorem splitOn_join (ns : List Bytes) (hnn : ns ≠ []) (hc : ∀ n ∈ ns, comma ∉ n) :
    Bytes.splitOn comma (Bytes.join comma ns) = ns := by
  induction ns with
  | nil => exact absurd rfl hnn
  | cons n rest ih =>
    cases rest with
    | nil => simp [Bytes.join, ACRH.splitOn_no_comma (hc n List.mem_cons_self)]
    | cons r rs =>
      simp only [Bytes.join]
      rw [ACRH.splitOn_append (hc n List.mem_cons_self)]
      rw [ih (by simp) (fun x hx => hc x (List.mem_cons_of_mem _ hx))]

/-- A comma-joined list of tokens on one line. -/
theorem extract_join (h : HdrMap) (name : Bytes) (ns : List Bytes) (hnn : ns ≠ [])
    (hh : h name = some [Bytes.join comma ns]) (ht : ∀ n ∈ ns, isValid n = true) :
    extractList h name = some ns := by
  have hel : Spec.elements [Bytes.join comma ns] = ns := by
    simp only [Spec.elements, List.flatMap_cons, List.flatMap_nil, List.append_nil]
    exact splitOn_join ns hnn (fun n hn => valid_no_comma (ht n hn))
  have := extract_of_names h name _ ns hh (by rw [hel]; exact ACRH.names_plain ns (fun e he => valid_no_ows (ht e he)))
    (fun n hn _ => ht n hn)
  rw [this]
  congr 1
  rw [List.filter_eq_self]
  intro n hn
  have := valid_ne_nil (ht n hn)
  cases n with
  | nil => exact absurd rfl this
  | cons _ _ => rfl

/-! ### what the documentation tolerates from intermediaries -/

/-- The browser's list `names`, as it may reach the server: re-split over several field lines,
with at most one OWS byte around each element and at most `MaxEmptyElements` empty elements. -/
def Tolerated (names : List Bytes) (lines : List Bytes) : Prop :=
  ∃ ns, Spec.names (Spec.elements lines) = some ns ∧ ns.filter (fun n => !n.isEmpty) = names ∧
    (ns.filter (fun n => n.isEmpty)).length ≤ Facts.headers_MaxEmptyElements

/-- The single line a browser emits is tolerated. -/
theorem tolerated_plain (names : List Bytes) (hnn : names ≠ []) (ht : ∀ n ∈ names, isValid n = true) :
    Tolerated names [Bytes.join comma names] := by
  have hel : Spec.elements [Bytes.join comma names] = names := by
    simp only [Spec.elements, List.flatMap_cons, List.flatMap_nil, List.append_nil]
    exact splitOn_join names hnn (fun n hn => valid_no_comma (ht n hn))
  refine ⟨names, by rw [hel]; exact ACRH.names_plain names (fun e he => valid_no_ows (ht e he)), ?_, ?_⟩
  · rw [List.filter_eq_self]
    intro n hn
    have := valid_ne_nil (ht n hn)
    cases n with
    | nil => exact absurd rfl this
    | cons _ _ => rfl
  · have : names.filter (fun n => n.isEmpty) = [] := by
      rw [List.filter_eq_nil_iff]
      intro n hn
      have := valid_ne_nil (ht n hn)
      cases n with
      | nil => exact absurd rfl this
      | cons _ _ => simp
    rw [this]; exact Nat.zero_le _

theorem strictSorted_iff (l : List Bytes) : Spec.strictlyIncreasing l = true ↔ StrictSorted l := by
  induction l with
  | nil => simp [Spec.strictlyIncreasing, StrictSorted]
  | cons a t ih =>
    cases t with
    | nil => simp [Spec.strictlyIncreasing, StrictSorted]
    | cons b r =>
      simp only [Spec.strictlyIncreasing, Bool.and_eq_true, ih]
      unfold StrictSorted at *
      constructor
      · rintro ⟨h1, h2⟩
        refine List.Pairwise.cons ?_ h2
        intro x hx
        rcases List.mem_cons.mp hx with rfl | hx
        · exact h1
        · exact Bytes.lt_trans h1 ((List.pairwise_cons.mp h2).1 x hx)
      · intro h
        have := List.pairwise_cons.mp h
        exact ⟨this.1 b List.mem_cons_self, this.2⟩

/-- **Server side of a tolerated list**: the scanner approves it exactly when every name is allowed. -/
theorem check_tolerated (set : SortedSet) (hwf : set.WF) (names lines : List Bytes)
    (hs : StrictSorted names) (ht : Tolerated names lines) :
    Headers.check set lines = names.all (fun n => set.elems.contains n) := by
  obtain ⟨ns, h1, h2, h3⟩ := ht
  rw [C14_spec set hwf lines]
  unfold Spec.approved
  rw [h1]
  simp only [h2, decide_eq_true h3, Bool.true_and, (strictSorted_iff names).mpr hs, Bool.and_true]
where
  C14_spec (set : SortedSet) (hwf : set.WF) (lines : List Bytes) :
      Headers.check set lines = Spec.approved Facts.headers_MaxEmptyElements set.elems lines := by
    rw [ACRH.check_eq_fold, ACRH.foldElems_iff set hwf _ _ (Nat.zero_le _)]
    unfold Spec.approved
    cases Spec.names (Spec.elements lines) with
    | none => rfl
    | some ns =>
      simp only [Nat.zero_add, List.drop_zero]
      rw [ACRH.chain_iff set.elems hwf.sorted, Bool.and_assoc]

/-- **Browser side of a tolerated list**: the browser extracts exactly the names. -/
theorem extract_tolerated (h : HdrMap) (name : Bytes) (names lines : List Bytes) (hh : h name = some lines)
    (hv : ∀ n ∈ names, isValid n = true) (ht : Tolerated names lines) :
    extractList h name = some names := by
  obtain ⟨ns, h1, h2, _⟩ := ht
  rw [extract_of_names h name lines ns hh h1, h2]
  intro n hn hne
  apply hv
  rw [← h2, List.mem_filter]
  refine ⟨hn, ?_⟩
  cases n with
  | nil => exact absurd rfl hne
  | cons _ _ => rfl

end Browser
end Cors
