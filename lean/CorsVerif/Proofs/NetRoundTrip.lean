import CorsVerif.Proofs.NetFacts
import CorsVerif.Proofs.ACRH
/-
  The model of `net/netip`: parsing the canonical text of an address gives the address back
  (`fields (render6 gs) = some gs`), hence every canonical, zone-free, not IPv4-mapped literal is
  accepted by the IPv6 branch with itself as canonical form.
-/
namespace Cors
namespace Net

/-! ### one field -/

theorem hexVal_hexDigit (d : Nat) (h : d < 16) : hexVal (hexDigit d) = some d := by
  unfold hexVal hexDigit
  by_cases h10 : d < 10
  · rw [if_pos h10, if_pos (by omega)]; congr 1; omega
  · rw [if_neg h10, if_neg (by omega), if_pos (by omega)]; congr 1; omega

theorem isHex_hexDigit (d : Nat) (h : d < 16) : isHex (hexDigit d) = true := by
  unfold isHex; rw [hexVal_hexDigit d h]; rfl

theorem isHex_colon : isHex 58 = false := by decide

theorem appendHex_all (x : Nat) (hx : x < 65536) : (appendHex x).all isHex = true := by
  unfold appendHex
  split
  · simp only [List.all_cons, List.all_nil, Bool.and_true, Bool.and_eq_true]
    exact ⟨isHex_hexDigit _ (by omega), isHex_hexDigit _ (by omega), isHex_hexDigit _ (by omega), isHex_hexDigit _ (by omega)⟩
  · split
    · simp only [List.all_cons, List.all_nil, Bool.and_true, Bool.and_eq_true]
      exact ⟨isHex_hexDigit _ (by omega), isHex_hexDigit _ (by omega), isHex_hexDigit _ (by omega)⟩
    · split
      · simp only [List.all_cons, List.all_nil, Bool.and_true, Bool.and_eq_true]
        exact ⟨isHex_hexDigit _ (by omega), isHex_hexDigit _ (by omega)⟩
      · simp only [List.all_cons, List.all_nil, Bool.and_true]
        exact isHex_hexDigit _ (by omega)

theorem appendHex_len (x : Nat) : 1 ≤ (appendHex x).length ∧ (appendHex x).length ≤ 4 := by
  unfold appendHex
  split
  · simp
  · split
    · simp
    · split <;> simp

theorem hexValue_appendHex (x : Nat) (hx : x < 65536) : hexValue (appendHex x) = x := by
  unfold appendHex hexValue
  split
  · simp only [List.foldl_cons, List.foldl_nil]
    rw [hexVal_hexDigit _ (by omega), hexVal_hexDigit _ (by omega), hexVal_hexDigit _ (by omega), hexVal_hexDigit _ (by omega)]
    simp only [Option.getD_some]
    omega
  · split
    · simp only [List.foldl_cons, List.foldl_nil]
      rw [hexVal_hexDigit _ (by omega), hexVal_hexDigit _ (by omega), hexVal_hexDigit _ (by omega)]
      simp only [Option.getD_some]
      omega
    · split
      · simp only [List.foldl_cons, List.foldl_nil]
        rw [hexVal_hexDigit _ (by omega), hexVal_hexDigit _ (by omega)]
        simp only [Option.getD_some]
        omega
      · simp only [List.foldl_cons, List.foldl_nil]
        rw [hexVal_hexDigit _ (by omega)]
        simp only [Option.getD_some]
        omega

theorem takeWhile_append_stop {p : Nat → Bool} (l r : Bytes) (hl : l.all p = true) (hr : r.head?.all (fun c => !p c) = true) :
    (l ++ r).takeWhile p = l ∧ (l ++ r).dropWhile p = r := by
  induction l with
  | nil =>
    cases r with
    | nil => simp
    | cons c t =>
      simp only [List.head?_cons, Option.all_some, Bool.not_eq_true'] at hr
      simp [List.takeWhile, List.dropWhile, hr]
  | cons a t ih =>
    simp only [List.all_cons, Bool.and_eq_true] at hl
    obtain ⟨h1, h2⟩ := ih hl.2
    simp [List.takeWhile, List.dropWhile, hl.1, h1, h2]

/-- Reading one canonical field followed by `tail` (empty, or starting with a colon). -/
theorem span_field (x : Nat) (hx : x < 65536) (tail : Bytes) (ht : tail = [] ∨ ∃ t, tail = 58 :: t) :
    (appendHex x ++ tail).takeWhile isHex = appendHex x ∧ (appendHex x ++ tail).dropWhile isHex = tail := by
  apply takeWhile_append_stop _ _ (appendHex_all x hx)
  rcases ht with rfl | ⟨t, rfl⟩
  · rfl
  · simp [isHex_colon]

/-! ### the loop on canonical text -/

theorem appendHex_isEmpty (x : Nat) : (appendHex x).isEmpty = false := by
  have := (appendHex_len x).1
  cases h : appendHex x with
  | nil => rw [h] at this; simp at this
  | cons _ _ => rfl

theorem appendHex_head (x : Nat) (hx : x < 65536) : ∃ c t, appendHex x = c :: t ∧ c ≠ 58 := by
  have hall := appendHex_all x hx
  cases h : appendHex x with
  | nil => have := appendHex_isEmpty x; rw [h] at this; simp at this
  | cons c t =>
    rw [h] at hall
    simp only [List.all_cons, Bool.and_eq_true] at hall
    refine ⟨c, t, rfl, ?_⟩
    intro hc
    rw [hc, isHex_colon] at hall
    exact absurd hall.1 (by simp)

/-- One iteration of the loop on a canonical field. -/
theorem loop_step (fuel : Nat) (pre : List Nat) (ell : Option Nat) (h : Nat) (hh : h < 65536) (hpre : pre.length < 8) :
    loop (fuel + 1) pre ell (appendHex h) = some (pre ++ [h], ell, []) ∧
    (∀ c2 after2, c2 ≠ 58 → loop (fuel + 1) pre ell (appendHex h ++ 58 :: c2 :: after2) = loop fuel (pre ++ [h]) ell (c2 :: after2)) ∧
    loop (fuel + 1) pre none (appendHex h ++ [58, 58]) = some (pre ++ [h], some (pre ++ [h]).length, []) ∧
    (∀ c t, loop (fuel + 1) pre none (appendHex h ++ 58 :: 58 :: c :: t) = loop fuel (pre ++ [h]) (some (pre ++ [h]).length) (c :: t)) := by
  have hge : ¬ pre.length ≥ 8 := by omega
  have hemp := appendHex_isEmpty h
  have hlen : ¬ (appendHex h).length > 4 := by have := (appendHex_len h).2; omega
  have hval := hexValue_appendHex h hh
  refine ⟨?_, ?_, ?_, ?_⟩
  · obtain ⟨h1, h2⟩ := span_field h hh [] (Or.inl rfl)
    rw [List.append_nil] at h1 h2
    simp only [loop, if_neg hge, h1, h2, hemp, hlen, decide_false, Bool.or_false, Bool.false_eq_true, if_false,
      List.head?_nil, hval]
    simp
  · intro c2 after2 hc2
    obtain ⟨h1, h2⟩ := span_field h hh (58 :: c2 :: after2) (Or.inr ⟨_, rfl⟩)
    have hc : (c2 == 58) = false := by simpa using hc2
    simp only [loop, if_neg hge, h1, h2, hemp, hlen, decide_false, Bool.or_false, Bool.false_eq_true, if_false,
      List.head?_cons, hval, hc]
    simp
  · obtain ⟨h1, h2⟩ := span_field h hh [58, 58] (Or.inr ⟨_, rfl⟩)
    simp only [loop, if_neg hge, h1, h2, hemp, hlen, decide_false, Bool.or_false, Bool.false_eq_true, if_false,
      List.head?_cons, hval]
    simp
  · intro c t
    obtain ⟨h1, h2⟩ := span_field h hh (58 :: 58 :: c :: t) (Or.inr ⟨_, rfl⟩)
    simp only [loop, if_neg hge, h1, h2, hemp, hlen, decide_false, Bool.or_false, Bool.false_eq_true, if_false,
      List.head?_cons, hval]
    simp

/-- Fields joined by single colons. -/
def joinHex : List Nat → Bytes
  | [] => []
  | [x] => appendHex x
  | x :: y :: t => appendHex x ++ 58 :: joinHex (y :: t)

theorem joinHex_head (x : Nat) (t : List Nat) (hx : x < 65536) : ∃ c r, joinHex (x :: t) = c :: r ∧ c ≠ 58 := by
  obtain ⟨c, r, hc, hne⟩ := appendHex_head x hx
  cases t with
  | nil => exact ⟨c, r, by simp [joinHex, hc], hne⟩
  | cons y ys => exact ⟨c, r ++ 58 :: joinHex (y :: ys), by simp [joinHex, hc], hne⟩

/-- The loop reads a run of canonical fields: to the end of the text, up to a final `::`, or up to a `::` with more behind it. -/
theorem loop_read (hs : List Nat) (hh : ∀ h ∈ hs, h < 65536) (hne : hs ≠ []) :
    ∀ (fuel : Nat) (pre : List Nat) (ell : Option Nat), pre.length + hs.length ≤ 8 → hs.length ≤ fuel →
      loop fuel pre ell (joinHex hs) = some (pre ++ hs, ell, []) ∧
      loop fuel pre none (joinHex hs ++ [58, 58]) = some (pre ++ hs, some (pre ++ hs).length, []) ∧
      (∀ c t, loop fuel pre none (joinHex hs ++ 58 :: 58 :: c :: t) =
        loop (fuel - hs.length) (pre ++ hs) (some (pre ++ hs).length) (c :: t)) := by
  induction hs with
  | nil => exact absurd rfl hne
  | cons h rest ih =>
    intro fuel pre ell hlen hfuel
    have hh0 : h < 65536 := hh h List.mem_cons_self
    obtain ⟨f, rfl⟩ : ∃ f, fuel = f + 1 := by
      cases fuel with
      | zero => simp at hfuel
      | succ f => exact ⟨f, rfl⟩
    have hpre : pre.length < 8 := by simp at hlen; omega
    cases rest with
    | nil =>
      obtain ⟨s1, _, s3, s4⟩ := loop_step f pre ell h hh0 hpre
      obtain ⟨_, _, s3', s4'⟩ := loop_step f pre none h hh0 hpre
      refine ⟨by simpa [joinHex] using s1, by simpa [joinHex] using s3', ?_⟩
      intro c t
      have := s4' c t
      simpa [joinHex] using this
    | cons h2 t2 =>
      have hrest : ∀ x ∈ h2 :: t2, x < 65536 := fun x hx => hh x (List.mem_cons_of_mem _ hx)
      obtain ⟨c2, r2, hj, hc2⟩ := joinHex_head h2 t2 (hrest h2 List.mem_cons_self)
      have ih' := ih hrest (by simp)
      have hlen' : (pre ++ [h]).length + (h2 :: t2).length ≤ 8 := by simp at hlen ⊢; omega
      have hfuel' : (h2 :: t2).length ≤ f := by simp at hfuel ⊢; omega
      have happ : pre ++ [h] ++ (h2 :: t2) = pre ++ h :: h2 :: t2 := by simp
      refine ⟨?_, ?_, ?_⟩
      · obtain ⟨_, s2, _, _⟩ := loop_step f pre ell h hh0 hpre
        have e : joinHex (h :: h2 :: t2) = appendHex h ++ 58 :: c2 :: r2 := by
          simp only [joinHex]; rw [hj]
        rw [e, s2 c2 r2 hc2, ← hj]
        have := (ih' f (pre ++ [h]) ell hlen' hfuel').1
        rw [this, happ]
      · obtain ⟨_, s2, _, _⟩ := loop_step f pre none h hh0 hpre
        have e : joinHex (h :: h2 :: t2) ++ [58, 58] = appendHex h ++ 58 :: c2 :: (r2 ++ [58, 58]) := by
          simp only [joinHex]; rw [hj]; simp
        rw [e, s2 c2 _ hc2]
        have e2 : c2 :: (r2 ++ [58, 58]) = joinHex (h2 :: t2) ++ [58, 58] := by rw [hj]; simp
        rw [e2]
        have := (ih' f (pre ++ [h]) none hlen' hfuel').2.1
        rw [this, happ]
      · intro c t
        obtain ⟨_, s2, _, _⟩ := loop_step f pre none h hh0 hpre
        have e : joinHex (h :: h2 :: t2) ++ 58 :: 58 :: c :: t = appendHex h ++ 58 :: c2 :: (r2 ++ 58 :: 58 :: c :: t) := by
          simp only [joinHex]; rw [hj]; simp
        rw [e, s2 c2 _ hc2]
        have e2 : c2 :: (r2 ++ 58 :: 58 :: c :: t) = joinHex (h2 :: t2) ++ 58 :: 58 :: c :: t := by rw [hj]; simp
        rw [e2]
        have := (ih' f (pre ++ [h]) none hlen' hfuel').2.2 c t
        rw [this, happ]
        congr 1
        simp only [List.length_cons]
        omega

/-! ### what `appendTo6` writes -/

/-- `:x:y:z` -/
def tailStr : List Nat → Bytes
  | [] => []
  | x :: t => 58 :: (appendHex x ++ tailStr t)

theorem joinHex_cons (x : Nat) (l : List Nat) : joinHex (x :: l) = appendHex x ++ tailStr l := by
  induction l generalizing x with
  | nil => simp [joinHex, tailStr]
  | cons y t ih => simp only [joinHex, tailStr]; rw [ih y]

theorem tailStr_append (a b : List Nat) : tailStr (a ++ b) = tailStr a ++ tailStr b := by
  induction a with
  | nil => rfl
  | cons x t ih => simp only [List.cons_append, tailStr, ih, List.append_assoc]

theorem getD_drop (gs : List Nat) (i : Nat) (x : Nat) (l : List Nat) (h : gs.drop i = x :: l) :
    gs.getD i 0 = x ∧ gs.drop (i + 1) = l := by
  induction gs generalizing i with
  | nil => simp at h
  | cons g t ih =>
    cases i with
    | zero => simp at h; exact ⟨by simp [h.1], by simp [h.2]⟩
    | succ i =>
      simp only [List.drop_succ_cons] at h
      obtain ⟨h1, h2⟩ := ih i h
      exact ⟨by simpa using h1, by simpa using h2⟩

/-- Past the compressed run (or when there is none) the remaining fields are written with a colon in front of each. -/
theorem render_tail (gs : List Nat) (zs ze : Nat) :
    ∀ (l : List Nat) (i fuel : Nat), 1 ≤ i → gs.drop i = l → i + l.length = 8 → l.length ≤ fuel → (zs < i ∨ 8 ≤ zs) →
      render6Aux gs zs ze fuel i = tailStr l := by
  intro l
  induction l with
  | nil =>
    intro i fuel _ _ hi _ _
    have : i = 8 := by simpa using hi
    subst this
    cases fuel <;> simp [render6Aux, tailStr]
  | cons x t ih =>
    intro i fuel h1 hd hi hf hz
    simp only [List.length_cons] at hi hf
    obtain ⟨f, rfl⟩ : ∃ f, fuel = f + 1 := ⟨fuel - 1, by omega⟩
    obtain ⟨hx, hd'⟩ := getD_drop gs i x t hd
    have hne : (i == zs) = false := by
      simp only [beq_eq_false_iff_ne, ne_eq]; omega
    simp only [render6Aux, if_neg (show ¬ i ≥ 8 by omega), hne, Bool.false_eq_true, if_false,
      if_pos (show i > 0 by omega), hx, tailStr]
    rw [ih (i + 1) f (by omega) hd' (by omega) (by omega) (by omega)]
    simp

/-- Before the compressed run. -/
theorem render_head (gs : List Nat) (zs ze : Nat) (hzs : zs ≤ 8) (post : Bytes)
    (hpost : ∀ fuel, 9 - zs ≤ fuel → render6Aux gs zs ze fuel zs = [58, 58] ++ post) :
    ∀ (l : List Nat) (i fuel : Nat), 1 ≤ i → i + l.length = zs → l = (gs.drop i).take l.length → 9 - i ≤ fuel →
      render6Aux gs zs ze fuel i = tailStr l ++ [58, 58] ++ post := by
  intro l
  induction l with
  | nil =>
    intro i fuel _ hi _ hf
    have : i = zs := by simpa using hi
    subst this
    rw [hpost fuel hf]
    simp [tailStr]
  | cons x t ih =>
    intro i fuel h1 hi hl hf
    simp only [List.length_cons] at hi
    obtain ⟨f, rfl⟩ : ∃ f, fuel = f + 1 := ⟨fuel - 1, by omega⟩
    have hdrop : ∃ r, gs.drop i = x :: r ∧ t = r.take t.length := by
      cases hd : gs.drop i with
      | nil => rw [hd] at hl; simp at hl
      | cons y r =>
        rw [hd] at hl
        simp only [List.length_cons, List.take_succ_cons, List.cons.injEq] at hl
        exact ⟨r, by rw [hl.1], hl.2⟩
    obtain ⟨r, hd, ht⟩ := hdrop
    obtain ⟨hx, hd'⟩ := getD_drop gs i x r hd
    have hne : (i == zs) = false := by
      simp only [beq_eq_false_iff_ne, ne_eq]; omega
    simp only [render6Aux, if_neg (show ¬ i ≥ 8 by omega), hne, Bool.false_eq_true, if_false,
      if_pos (show i > 0 by omega), hx, tailStr]
    rw [ih (i + 1) f (by omega) (by omega) (by rw [hd']; exact ht) (by omega)]
    simp

/-! ### `fields` on the two shapes of text -/

/-- What `fields` does with the result of the loop. -/
def finish (r : Option (List Nat × Option Nat × Bytes)) : Option (List Nat) :=
  match r with
  | none => none
  | some (groups, ell, rest) =>
    if !rest.isEmpty then none
    else if groups.length < 8 then
      match ell with
      | none => none
      | some e => some (groups.take e ++ List.replicate (8 - groups.length) 0 ++ groups.drop e)
    else if ell.isSome then none
    else some groups

theorem fields_plain (c : Nat) (r : Bytes) (hc : c ≠ 58) : fields (c :: r) = finish (loop 9 [] none (c :: r)) := by
  unfold fields finish
  split
  · rename_i t heq
    simp only [List.cons.injEq] at heq
    exact absurd heq.1 hc
  · simp only [Option.isSome_none, Bool.false_and, Bool.false_eq_true, if_false]
    rfl

theorem fields_ell (c : Nat) (t : Bytes) : fields (58 :: 58 :: c :: t) = finish (loop 9 [] (some 0) (c :: t)) := by
  unfold fields finish
  simp only [Option.isSome_some, List.isEmpty_cons, Bool.and_false, Bool.false_eq_true, if_false]
  rfl

theorem fields_unspecified : fields [58, 58] = some (List.replicate 8 0) := by decide

/-! ### the run of zeros -/

theorem zeroRun_le (l : List Nat) : zeroRun l ≤ l.length := by
  induction l with
  | nil => simp [zeroRun]
  | cons x t ih =>
    cases x with
    | zero => simp only [zeroRun, List.length_cons]; omega
    | succ n => simp [zeroRun]

theorem zeroRun_zero (l : List Nat) (k : Nat) (hk : k < zeroRun l) : l.getD k 1 = 0 := by
  induction l generalizing k with
  | nil => simp [zeroRun] at hk
  | cons x t ih =>
    cases x with
    | succ n => simp [zeroRun] at hk
    | zero =>
      cases k with
      | zero => simp
      | succ k =>
        simp only [zeroRun] at hk
        have := ih k (by omega)
        simpa using this

/-- The run chosen by `appendTo6` (if any) lies inside the eight fields and consists of zeros. -/
def GoodRun (gs : List Nat) (r : Nat × Nat) : Prop :=
  r = (255, 255) ∨ (r.1 < r.2 ∧ r.2 ≤ gs.length ∧ ∀ j, r.1 ≤ j → j < r.2 → gs.getD j 1 = 0)

theorem bestRun_good (gs : List Nat) :
    ∀ (l : List Nat) (i : Nat) (best : Nat × Nat), gs.drop i = l → i + l.length = gs.length → GoodRun gs best →
      GoodRun gs (bestRun l i best) := by
  intro l
  induction l with
  | nil => intro i best _ _ hb; simpa [bestRun] using hb
  | cons g t ih =>
    intro i best hd hlen hb
    simp only [bestRun]
    have hd' : gs.drop (i + 1) = t := by
      have := congrArg (List.drop 1) hd
      simpa [List.drop_drop, Nat.add_comm] using this
    apply ih (i + 1) _ hd' (by simp at hlen ⊢; omega)
    split
    · rename_i hc
      simp only [Bool.and_eq_true, decide_eq_true_eq] at hc
      right
      refine ⟨by omega, ?_, ?_⟩
      · have := zeroRun_le (g :: t)
        simp only [List.length_cons] at this hlen
        omega
      · intro j hj1 hj2
        have hz := zeroRun_zero (g :: t) (j - i) (by omega)
        rw [← hd] at hz
        have : (gs.drop i).getD (j - i) 1 = gs.getD j 1 := by
          simp only [List.getD_eq_getElem?_getD, List.getElem?_drop]
          congr 2; omega
        rw [this] at hz
        exact hz
    · exact hb

theorem render6Aux_succ (gs : List Nat) (zs ze fuel i : Nat) :
    render6Aux gs zs ze (fuel + 1) i =
      if i ≥ 8 then []
      else if i == zs then
        [58, 58] ++ (if ze ≥ 8 then [] else appendHex (gs.getD ze 0) ++ render6Aux gs zs ze fuel (ze + 1))
      else (if i > 0 then [58] else []) ++ appendHex (gs.getD i 0) ++ render6Aux gs zs ze fuel (i + 1) := by
  rw [render6Aux]

/-! ### putting the zeros back -/

theorem split_run (gs : List Nat) (zs ze : Nat) (h1 : zs ≤ ze) (h2 : ze ≤ gs.length)
    (hz : ∀ j, zs ≤ j → j < ze → gs.getD j 1 = 0) :
    gs = gs.take zs ++ List.replicate (ze - zs) 0 ++ gs.drop ze := by
  have hmid : (gs.drop zs).take (ze - zs) = List.replicate (ze - zs) 0 := by
    rw [List.eq_replicate_iff]
    constructor
    · simp only [List.length_take, List.length_drop]; omega
    · intro b hb
      obtain ⟨k, hk, hbk⟩ := List.mem_iff_getElem.mp hb
      simp only [List.length_take, List.length_drop] at hk
      have := hz (zs + k) (by omega) (by omega)
      simp only [List.getElem_take, List.getElem_drop] at hbk
      rw [← hbk]
      have hlt : zs + k < gs.length := by omega
      simp only [List.getD_eq_getElem?_getD, List.getElem?_eq_getElem hlt, Option.getD_some] at this
      exact this
  have hdd : (gs.drop zs).drop (ze - zs) = gs.drop ze := by
    rw [List.drop_drop]; congr 1; omega
  calc gs = gs.take zs ++ gs.drop zs := (List.take_append_drop zs gs).symm
    _ = gs.take zs ++ ((gs.drop zs).take (ze - zs) ++ (gs.drop zs).drop (ze - zs)) := by
        congr 1; exact (List.take_append_drop _ _).symm
    _ = gs.take zs ++ List.replicate (ze - zs) 0 ++ gs.drop ze := by rw [hmid, hdd, List.append_assoc]

theorem finish_plain (gs : List Nat) (h : gs.length = 8) : finish (some (gs, none, [])) = some gs := by
  unfold finish
  simp [h]

theorem finish_ell (groups : List Nat) (e : Nat) (h : groups.length < 8) :
    finish (some (groups, some e, [])) = some (groups.take e ++ List.replicate (8 - groups.length) 0 ++ groups.drop e) := by
  unfold finish
  simp [h]

/-- **Parsing the canonical text of an address gives the address back.** -/
theorem fields_render (gs : List Nat) (hlen : gs.length = 8) (hlt : ∀ g ∈ gs, g < 65536) :
    fields (render6 gs) = some gs := by
  unfold render6
  have hg := bestRun_good gs gs 0 (255, 255) rfl (by simp) (Or.inl rfl)
  cases hr : bestRun gs 0 (255, 255) with
  | mk zs ze =>
    rw [hr] at hg
    simp only []
    obtain ⟨g0, rest, rfl⟩ : ∃ g0 rest, gs = g0 :: rest := by
      cases gs with
      | nil => simp at hlen
      | cons a t => exact ⟨a, t, rfl⟩
    have hrestlen : rest.length = 7 := by simpa using hlen
    rcases hg with hnone | ⟨h1, h2, hz⟩
    · -- no run of zeros to compress
      simp only [Prod.mk.injEq] at hnone
      obtain ⟨rfl, rfl⟩ := hnone
      have hstr : render6Aux (g0 :: rest) 255 255 9 0 = joinHex (g0 :: rest) := by
        have ht := render_tail (g0 :: rest) 255 255 rest 1 8 (by omega) (by simp) (by omega) (by omega) (Or.inr (by omega))
        rw [show (9 : Nat) = 8 + 1 from rfl, render6Aux_succ, ht, joinHex_cons]
        simp
      rw [hstr]
      obtain ⟨c, r, hj, hc⟩ := joinHex_head g0 rest (hlt g0 List.mem_cons_self)
      rw [hj, fields_plain c r hc, ← hj]
      rw [(loop_read (g0 :: rest) hlt (by simp) 9 [] none (by simp; omega) (by simp; omega)).1]
      exact finish_plain _ hlen
    · simp only [] at h1 h2 hz
      have hze : ze ≤ 8 := by rw [hlen] at h2; exact h2
      have hsplit := split_run (g0 :: rest) zs ze (by omega) h2 hz
      by_cases hzs0 : zs = 0
      · subst hzs0
        by_cases hze8 : ze = 8
        · subst hze8
          have hstr : render6Aux (g0 :: rest) 0 8 9 0 = [58, 58] := by
            rw [show (9 : Nat) = 8 + 1 from rfl, render6Aux_succ]; simp
          rw [hstr, fields_unspecified]
          have hd8 : List.drop 8 (g0 :: rest) = [] := List.drop_eq_nil_of_le (by omega)
          rw [hd8] at hsplit
          simp only [List.take_zero, List.nil_append, List.append_nil, Nat.sub_zero] at hsplit
          rw [← hsplit]
        · have hzlt : ze < 8 := by omega
          obtain ⟨x, l, hd⟩ : ∃ x l, (g0 :: rest).drop ze = x :: l := by
            cases hdd : (g0 :: rest).drop ze with
            | nil =>
              have := congrArg List.length hdd
              simp only [List.length_drop, List.length_nil] at this
              omega
            | cons a t => exact ⟨a, t, rfl⟩
          obtain ⟨hx, hd'⟩ := getD_drop (g0 :: rest) ze x l hd
          have hl : l.length = 7 - ze := by
            have := congrArg List.length hd
            simp only [List.length_drop, List.length_cons] at this
            omega
          have hstr : render6Aux (g0 :: rest) 0 ze 9 0 = 58 :: 58 :: joinHex (x :: l) := by
            have ht := render_tail (g0 :: rest) 0 ze l (ze + 1) 8 (by omega) hd' (by omega) (by omega) (Or.inl (by omega))
            rw [show (9 : Nat) = 8 + 1 from rfl, render6Aux_succ, joinHex_cons, ht, hx]
            simp only [show ¬ (0 : Nat) ≥ 8 by omega, if_false, beq_self_eq_true, if_true, if_neg (show ¬ ze ≥ 8 by omega)]
            simp
          rw [hstr]
          have hpostlt : ∀ h ∈ x :: l, h < 65536 := by
            intro h hh
            exact hlt h (by rw [← hd] at hh; exact (List.drop_sublist _ _).subset hh)
          obtain ⟨c, r, hj, hc⟩ := joinHex_head x l (hpostlt x List.mem_cons_self)
          rw [hj, fields_ell c r, ← hj]
          rw [(loop_read (x :: l) hpostlt (by simp) 9 [] (some 0) (by simp; omega) (by simp; omega)).1]
          rw [finish_ell _ 0 (by simp; omega)]
          conv => rhs; rw [hsplit]
          simp only [List.nil_append, List.take_zero, List.drop_zero, List.length_cons, Nat.sub_zero, hd]
          have e : 8 - (l.length + 1) = ze := by omega
          rw [e]
      · have hzspos : 1 ≤ zs := by omega
        -- what follows the `::`
        have hpostStr : ∃ post, (∀ fuel, 9 - zs ≤ fuel → render6Aux (g0 :: rest) zs ze fuel zs = [58, 58] ++ post) ∧
            post = (if ze ≥ 8 then [] else joinHex ((g0 :: rest).drop ze)) := by
          refine ⟨_, ?_, rfl⟩
          intro fuel hf
          obtain ⟨f, rfl⟩ : ∃ f, fuel = f + 1 := ⟨fuel - 1, by omega⟩
          by_cases hze8 : ze ≥ 8
          · rw [render6Aux_succ]; simp [hze8, show ¬ zs ≥ 8 by omega]
          · obtain ⟨x, l, hd⟩ : ∃ x l, (g0 :: rest).drop ze = x :: l := by
              cases hdd : (g0 :: rest).drop ze with
              | nil =>
                have := congrArg List.length hdd
                simp only [List.length_drop, List.length_nil] at this
                omega
              | cons a t => exact ⟨a, t, rfl⟩
            obtain ⟨hx, hd'⟩ := getD_drop (g0 :: rest) ze x l hd
            have hl : l.length = 7 - ze := by
              have := congrArg List.length hd
              simp only [List.length_drop, List.length_cons] at this
              omega
            have ht := render_tail (g0 :: rest) zs ze l (ze + 1) f (by omega) hd' (by omega) (by omega) (Or.inl (by omega))
            rw [render6Aux_succ]
            simp only [if_neg (show ¬ zs ≥ 8 by omega), beq_self_eq_true, if_true, if_neg hze8, hx, ht, hd, joinHex_cons]
        obtain ⟨post, hpost, hpostdef⟩ := hpostStr
        -- the fields before the `::`
        have hpre : (g0 :: rest).take zs = g0 :: rest.take (zs - 1) := by
          obtain ⟨k, rfl⟩ : ∃ k, zs = k + 1 := ⟨zs - 1, by omega⟩
          simp
        have hstr : render6Aux (g0 :: rest) zs ze 9 0 = joinHex ((g0 :: rest).take zs) ++ [58, 58] ++ post := by
          have hh := render_head (g0 :: rest) zs ze (by omega) post hpost (rest.take (zs - 1)) 1 8 (by omega)
            (by simp only [List.length_take]; omega) (by simp) (by omega)
          have hne : ((0 : Nat) == zs) = false := by simp only [beq_eq_false_iff_ne, ne_eq]; omega
          rw [show (9 : Nat) = 8 + 1 from rfl, render6Aux_succ]
          simp only [show ¬ (0 : Nat) ≥ 8 by omega, hne, Bool.false_eq_true, if_false, show ¬ (0 : Nat) > 0 by omega]
          rw [hh, hpre, joinHex_cons]
          simp
        rw [hstr]
        have hprelt : ∀ h ∈ (g0 :: rest).take zs, h < 65536 := fun h hh => hlt h ((List.take_sublist _ _).subset hh)
        have hprelen : ((g0 :: rest).take zs).length = zs := by simp only [List.length_take]; omega
        have hprene : (g0 :: rest).take zs ≠ [] := by rw [hpre]; simp
        obtain ⟨c, r, hj, hc⟩ : ∃ c r, joinHex ((g0 :: rest).take zs) = c :: r ∧ c ≠ 58 := by
          rw [hpre]; exact joinHex_head g0 _ (hlt g0 List.mem_cons_self)
        by_cases hze8 : ze ≥ 8
        · have hze8' : ze = 8 := by omega
          subst hze8'
          rw [hpostdef, if_pos (by omega), List.append_nil]
          have hfp : fields (joinHex ((g0 :: rest).take zs) ++ [58, 58]) =
              finish (loop 9 [] none (joinHex ((g0 :: rest).take zs) ++ [58, 58])) := by
            rw [hj]; exact fields_plain c _ hc
          rw [hfp, (loop_read _ hprelt hprene 9 [] none (by simp only [List.length_nil]; omega) (by omega)).2.1]
          simp only [List.nil_append]
          rw [finish_ell _ _ (by rw [hprelen]; omega), hprelen]
          conv => rhs; rw [hsplit]
          simp only [List.take_take, Nat.min_self, List.drop_take, Nat.sub_self, List.take_zero, List.append_nil]
          have : List.drop 8 (g0 :: rest) = [] := by
            apply List.drop_eq_nil_of_le; omega
          rw [this, List.append_nil]
        · obtain ⟨x, l, hd⟩ : ∃ x l, (g0 :: rest).drop ze = x :: l := by
            cases hdd : (g0 :: rest).drop ze with
            | nil =>
              have := congrArg List.length hdd
              simp only [List.length_drop, List.length_nil] at this
              omega
            | cons a t => exact ⟨a, t, rfl⟩
          have hpostlt : ∀ h ∈ x :: l, h < 65536 := by
            intro h hh
            exact hlt h (by rw [← hd] at hh; exact (List.drop_sublist _ _).subset hh)
          have hpostlen : (x :: l).length = 8 - ze := by
            have := congrArg List.length hd
            simp only [List.length_drop] at this
            omega
          obtain ⟨c', r', hj', hc'⟩ := joinHex_head x l (hpostlt x List.mem_cons_self)
          rw [hpostdef, if_neg hze8, hd]
          have hfp : fields (joinHex ((g0 :: rest).take zs) ++ [58, 58] ++ joinHex (x :: l)) =
              finish (loop 9 [] none (joinHex ((g0 :: rest).take zs) ++ 58 :: 58 :: c' :: r')) := by
            rw [hj', hj]
            have : (c :: r) ++ [58, 58] ++ c' :: r' = c :: (r ++ 58 :: 58 :: c' :: r') := by simp
            rw [this, fields_plain c _ hc]
            simp
          rw [hfp, (loop_read _ hprelt hprene 9 [] none (by simp only [List.length_nil]; omega) (by omega)).2.2 c' r']
          simp only [List.nil_append]
          rw [← hj', hprelen]
          rw [(loop_read (x :: l) hpostlt (by simp) (9 - zs) _ (some zs) (by rw [hprelen, hpostlen]; omega) (by rw [hpostlen]; omega)).1]
          rw [finish_ell _ _ (by simp only [List.length_append, hprelen, hpostlen]; omega)]
          conv => rhs; rw [hsplit]
          simp only [List.length_append, hprelen, hpostlen]
          rw [List.take_append_of_le_length (by omega), List.drop_append_of_le_length (by omega)]
          rw [List.take_of_length_le (by omega), List.drop_eq_nil_of_le (by omega), hd]
          simp only [List.nil_append]
          have e : 8 - (zs + (8 - ze)) = ze - zs := by omega
          rw [e]

/-! ### from fields to `ParseAddr` -/

/-- Canonical text consists of hex digits and colons. -/
def textByte (b : Nat) : Prop := b = 58 ∨ isHex b = true

theorem appendHex_text (x : Nat) (hx : x < 65536) : ∀ b ∈ appendHex x, textByte b := by
  intro b hb
  have := appendHex_all x hx
  rw [List.all_eq_true] at this
  exact Or.inr (this b hb)

theorem render6Aux_text (gs : List Nat) (hlt : ∀ g ∈ gs, g < 65536) (hlen : gs.length = 8) (zs ze : Nat) :
    ∀ (fuel i : Nat), ∀ b ∈ render6Aux gs zs ze fuel i, textByte b := by
  have hget : ∀ j, j < 8 → gs.getD j 0 < 65536 := by
    intro j hj
    have hjl : j < gs.length := by omega
    simp only [List.getD_eq_getElem?_getD, List.getElem?_eq_getElem hjl, Option.getD_some]
    exact hlt _ (List.getElem_mem hjl)
  intro fuel
  induction fuel with
  | zero => intro i b hb; simp [render6Aux] at hb
  | succ f ih =>
    intro i b hb
    rw [render6Aux_succ] at hb
    split at hb
    · cases hb
    · rename_i hi
      split at hb
      · rcases List.mem_append.mp hb with h | h
        · simp only [List.mem_cons, List.not_mem_nil, or_false] at h
          rcases h with rfl | rfl <;> exact Or.inl rfl
        · split at h
          · cases h
          · rename_i hze
            rcases List.mem_append.mp h with h' | h'
            · exact appendHex_text _ (hget ze (by omega)) b h'
            · exact ih _ b h'
      · rcases List.mem_append.mp hb with h | h
        · rcases List.mem_append.mp h with h' | h'
          · split at h'
            · simp only [List.mem_cons, List.not_mem_nil, or_false] at h'
              exact Or.inl h'
            · cases h'
          · exact appendHex_text _ (hget i (by omega)) b h'
        · exact ih _ b h

theorem render6_text (gs : List Nat) (hlt : ∀ g ∈ gs, g < 65536) (hlen : gs.length = 8) : ∀ b ∈ render6 gs, textByte b := by
  unfold render6
  exact render6Aux_text gs hlt hlen _ _ 9 0

theorem textByte_ne {b : Nat} (h : textByte b) : b ≠ 37 ∧ b ≠ 46 ∧ b ≠ 93 ∧ b ≠ 42 := by
  rcases h with rfl | h
  · decide
  · refine ⟨?_, ?_, ?_, ?_⟩ <;> (intro hb; subst hb; revert h; decide)

/-- **`ParseAddr` on the canonical text of an address that is not IPv4-mapped**: the address, with that
very text as its `String()`, no zone, not `Is4In6`; loopback exactly for `::1`. -/
theorem ip6_render (gs : List Nat) (hlen : gs.length = 8) (hlt : ∀ g ∈ gs, g < 65536) (h4 : is4in6 gs = false) :
    ip6 (render6 gs) = some { canon := render6 gs, zone := false, is4in6 := false,
                              loopback := gs == [0, 0, 0, 0, 0, 0, 0, 1] } := by
  have htext := render6_text gs hlt hlen
  have hcut : Bytes.cutAt 37 (render6 gs) = none := by
    rw [Cors.ACRH.cutAt_none_iff]
    intro hm
    exact (textByte_ne (htext 37 hm)).1 rfl
  unfold ip6
  simp only [hcut]
  rw [fields_render gs hlen hlt]
  simp [h4]

/-- A text without a colon is no IPv6 address. -/
theorem fields_all_hex (s : Bytes) (hs : s.all isHex = true) : fields s = none := by
  have htw : s.takeWhile isHex = s ∧ s.dropWhile isHex = [] := by
    have := takeWhile_append_stop s [] hs rfl
    simpa using this
  cases s with
  | nil => decide
  | cons c t =>
    have hc : c ≠ 58 := by
      simp only [List.all_cons, Bool.and_eq_true] at hs
      intro h; rw [h, isHex_colon] at hs; exact absurd hs.1 (by simp)
    rw [fields_plain c t hc]
    have hloop : loop 9 [] none (c :: t) = none ∨ loop 9 [] none (c :: t) = some ([hexValue (c :: t)], none, []) := by
      rw [show (9 : Nat) = 8 + 1 from rfl]
      simp only [loop, List.length_nil, show ¬ (0 : Nat) ≥ 8 by omega, if_false, htw.1, htw.2, List.isEmpty_cons, Bool.false_or,
        List.head?_nil]
      split
      · exact Or.inl rfl
      · right; simp
    rcases hloop with h | h
    · rw [h]; rfl
    · rw [h]; unfold finish; simp

theorem render6_has_colon (gs : List Nat) (hlen : gs.length = 8) (hlt : ∀ g ∈ gs, g < 65536) : (58 : Nat) ∈ render6 gs := by
  apply Classical.byContradiction
  intro hno
  have hall : (render6 gs).all isHex = true := by
    rw [List.all_eq_true]
    intro b hb
    rcases render6_text gs hlt hlen b hb with rfl | h
    · exact absurd hb hno
    · exact h
  have := fields_all_hex _ hall
  rw [fields_render gs hlen hlt] at this
  cases this

theorem firstIPMark_colon (s : Bytes) (hs : ∀ b ∈ s, b ≠ 46 ∧ b ≠ 37) (hc : (58 : Nat) ∈ s) : Pat.firstIPMark s = some 58 := by
  induction s with
  | nil => cases hc
  | cons b t ih =>
    simp only [Pat.firstIPMark]
    by_cases hb : b = 58
    · subst hb; simp
    · have h1 := hs b List.mem_cons_self
      have : (b == 46 || b == 58 || b == 37) = false := by simp [h1.1, h1.2, hb]
      rw [this]
      simp only [Bool.false_eq_true, if_false]
      apply ih (fun x hx => hs x (List.mem_cons_of_mem _ hx))
      rcases List.mem_cons.mp hc with h | h
      · exact absurd h.symm hb
      · exact h

theorem render6_len (gs : List Nat) (hlen : gs.length = 8) (hlt : ∀ g ∈ gs, g < 65536) : 2 ≤ (render6 gs).length := by
  have hcolon := render6_has_colon gs hlen hlt
  have hf := fields_render gs hlen hlt
  cases hr : render6 gs with
  | nil => rw [hr] at hcolon; cases hcolon
  | cons c t =>
    cases t with
    | cons _ _ => simp
    | nil =>
      rw [hr] at hcolon hf
      have : c = 58 := by
        rcases List.mem_cons.mp hcolon with h | h
        · exact h.symm
        · cases h
      subst this
      have : fields [58] = none := by decide
      rw [this] at hf
      cases hf

end Net
end Cors
