import CorsVerif.Spec.Prohibitions
import CorsVerif.Proofs.Tables
import CorsVerif.Proofs.Accepted
/-
  The single-pass validators report exactly the per-element violations of the specification.
-/
namespace Cors
open Gen

namespace Bytes

theorem upperByte_idem (b : Nat) : upperByte (upperByte b) = upperByte b := by
  unfold upperByte
  by_cases h : 97 ≤ b ∧ b ≤ 122
  · have : ¬ (97 ≤ b - 32 ∧ b - 32 ≤ 122) := by omega
    rw [if_pos h, if_neg this]
  · rw [if_neg h, if_neg h]

theorem upper_idem (s : Bytes) : upper (upper s) = upper s := by
  unfold upper
  rw [List.map_map]
  apply List.map_congr_left
  intro b _
  exact upperByte_idem b

end Bytes

namespace ValidateProofs
open Validate

theorem star_eq : Validate.star = Spec.star := tbl_star

/-! ### leaves of the error tree -/

theorem leavesList_append {α : Type} (xs ys : List (ETree α)) :
    ETree.leavesList (xs ++ ys) = ETree.leavesList xs ++ ETree.leavesList ys := by
  induction xs with
  | nil => rfl
  | cons x xs ih => simp [ETree.leavesList, ih]

theorem leavesList_map_leaf {α : Type} (es : List α) : ETree.leavesList (es.map ETree.leaf) = es := by
  induction es with
  | nil => rfl
  | cons e es ih => simp [ETree.leavesList, ETree.leaves, ih]

theorem leaves_fieldErr (es : List CfgErr) : ETree.leavesList (fieldErr es) = es := by
  unfold fieldErr
  cases es with
  | nil => rfl
  | cons e es =>
    simp only [List.isEmpty_cons, Bool.false_eq_true, if_false, ETree.leavesList, ETree.leaves, List.append_nil]
    exact leavesList_map_leaf (e :: es)

/-! ### Methods -/

theorem forbidden_not_normalized : ∀ m ∈ Spec.forbiddenMethods, Spec.normalizedMethods.contains m = false := by decide
theorem safelisted_upper : ∀ m ∈ Spec.safelistedMethods, m.upper = m := by decide
theorem safelisted_not_forbidden : ∀ m ∈ Spec.safelistedMethods, Spec.forbiddenMethods.contains m = false := by decide

theorem isForbidden_eq (n : Bytes) : Methods.isForbidden n = Spec.forbiddenMethods.contains n.upper := by
  unfold Methods.isForbidden
  rw [SortedSet.ofList_contains, sameMembers_iff tbl_forbiddenMethods]

theorem isSafelisted_eq (n : Bytes) : Methods.isSafelisted n = Spec.safelistedMethods.contains n := by
  unfold Methods.isSafelisted
  rw [SortedSet.ofList_contains, sameMembers_iff tbl_safelistedMethods]

theorem normalize_eq (n : Bytes) : Methods.normalize n = Spec.normalizeMethod n := by
  unfold Methods.normalize Spec.normalizeMethod
  simp only []
  rw [SortedSet.ofList_contains, sameMembers_iff tbl_normalizedMethods]

theorem normalize_upper (n : Bytes) : (Spec.normalizeMethod n).upper = n.upper := by
  unfold Spec.normalizeMethod
  split
  · exact Bytes.upper_idem n
  · rfl

/-- A forbidden method is reported exactly as supplied: normalisation leaves it alone. -/
theorem normalize_forbidden (n : Bytes) (h : Spec.forbiddenMethods.contains n.upper = true) : Spec.normalizeMethod n = n := by
  unfold Spec.normalizeMethod
  have := forbidden_not_normalized n.upper (by simpa using h)
  rw [this]; rfl

theorem methodStep_errs (st : MState) (name : Bytes) :
    (methodStep st name).errs = st.errs ++ Spec.methodViolations name := by
  unfold methodStep Spec.methodViolations
  rw [star_eq]
  by_cases hs : (name == Spec.star) = true
  · simp [hs]
  · simp only [hs, Bool.false_eq_true, if_false]
    by_cases hv : Methods.isValid name = true
    · have hv' : Spec.isToken name = true := hv
      simp only [hv, hv', Bool.not_true, Bool.false_eq_true, if_false]
      rw [normalize_eq, isSafelisted_eq, isForbidden_eq, normalize_upper]
      by_cases hf : Spec.forbiddenMethods.contains name.upper = true
      · rw [normalize_forbidden name hf]
        have hns : Spec.safelistedMethods.contains name = false := by
          cases hc : Spec.safelistedMethods.contains name with
          | false => rfl
          | true =>
            have hm : name ∈ Spec.safelistedMethods := by simpa using hc
            have := safelisted_not_forbidden name hm
            rw [safelisted_upper name hm] at hf
            rw [hf] at this; cases this
        rw [hns, hf]; rfl
      · have hf' : Spec.forbiddenMethods.contains name.upper = false := by simpa using hf
        rw [hf']
        simp only [Bool.false_eq_true, if_false, List.append_nil]
        split <;> rfl
    · have hv' : Spec.isToken name = false := by simpa [Spec.isToken, Methods.isValid] using hv
      have hv'' : Methods.isValid name = false := by simpa using hv
      simp [hv', hv'']

theorem methods_fold_errs (names : List Bytes) (st : MState) :
    (names.foldl methodStep st).errs = st.errs ++ names.flatMap Spec.methodViolations := by
  induction names generalizing st with
  | nil => simp
  | cons n ns ih => rw [List.foldl_cons, ih, methodStep_errs]; simp

theorem methods_errs (names : List Bytes) : (Validate.methods names).1 = names.flatMap Spec.methodViolations := by
  unfold Validate.methods
  simp only []
  rw [methods_fold_errs]
  rfl

/-! ### Request headers -/

theorem prefixes_eq (l : Bytes) :
    (l.hasPrefix Headers.proxyDash || l.hasPrefix Headers.secDash) =
      Spec.forbiddenRequestHeaderPrefixes.any (fun p => l.hasPrefix p) := by
  have h1 : Headers.proxyDash = Spec.b "proxy-" := by decide
  have h2 : Headers.secDash = Spec.b "sec-" := by decide
  simp [Spec.forbiddenRequestHeaderPrefixes, h1, h2]

theorem isForbiddenReq_eq (l : Bytes) :
    Headers.isForbiddenRequestHeaderName l =
      (Spec.forbiddenRequestHeaderNames.contains l || Spec.forbiddenRequestHeaderPrefixes.any (fun p => l.hasPrefix p)) := by
  unfold Headers.isForbiddenRequestHeaderName
  rw [SortedSet.ofList_contains, sameMembers_iff tbl_forbiddenReq, Bool.or_assoc, prefixes_eq]

theorem isProhibitedReq_eq (l : Bytes) :
    Headers.isProhibitedRequestHeaderName l = Spec.prohibitedRequestHeaderNames.contains l := by
  unfold Headers.isProhibitedRequestHeaderName
  rw [SortedSet.ofList_contains, sameMembers_iff tbl_prohibitedReq]

theorem authorization_clean :
    (Spec.forbiddenRequestHeaderNames.contains Spec.authorization
      || Spec.forbiddenRequestHeaderPrefixes.any (fun p => Spec.authorization.hasPrefix p)) = false
    ∧ Spec.prohibitedRequestHeaderNames.contains Spec.authorization = false := by decide

/-- The errors of one iteration of `validateRequestHeaders`, without the accumulator. -/
def reqHdrErrs1 (name : Bytes) : List CfgErr :=
  if name == Validate.star then []
  else if !Headers.isValid name then [.headerName name false .invalid]
  else if name.lower == Facts.headers_Authorization then []
  else if Headers.isForbiddenRequestHeaderName name.lower then [.headerName name false .forbidden]
  else if Headers.isProhibitedRequestHeaderName name.lower then [.headerName name false .prohibited]
  else []

theorem reqHdrStep_errs1 (cred : Bool) (st : RState) (name : Bytes) :
    (reqHdrStep cred st name).errs = st.errs ++ reqHdrErrs1 name := by
  unfold reqHdrStep reqHdrErrs1
  split
  · simp
  · split
    · rfl
    · simp only []
      split
      · split
        · simp
        · split <;> simp
      · split
        · rfl
        · split <;> simp

theorem reqHdrErrs1_eq (name : Bytes) : reqHdrErrs1 name = Spec.requestHeaderViolations name := by
  unfold reqHdrErrs1 Spec.requestHeaderViolations
  rw [star_eq, tbl_authorization, isForbiddenReq_eq, isProhibitedReq_eq]
  split
  · rfl
  · have : Spec.isToken name = Headers.isValid name := rfl
    rw [this]
    split
    · rfl
    · split
      · rename_i ha
        have hl : name.lower = Spec.authorization := by simpa using ha
        rw [hl, authorization_clean.1, authorization_clean.2]
        rfl
      · rfl

theorem reqHdrStep_errs (cred : Bool) (st : RState) (name : Bytes) :
    (reqHdrStep cred st name).errs = st.errs ++ Spec.requestHeaderViolations name := by
  rw [reqHdrStep_errs1, reqHdrErrs1_eq]

theorem reqHdr_fold_errs (cred : Bool) (names : List Bytes) (st : RState) :
    (names.foldl (reqHdrStep cred) st).errs = st.errs ++ names.flatMap Spec.requestHeaderViolations := by
  induction names generalizing st with
  | nil => simp
  | cons n ns ih => rw [List.foldl_cons, ih, reqHdrStep_errs]; simp

theorem requestHeaders_errs (cred : Bool) (names : List Bytes) :
    (Validate.requestHeaders cred names).1 = names.flatMap Spec.requestHeaderViolations := by
  unfold Validate.requestHeaders
  simp only []
  split <;> (simp only []; rw [reqHdr_fold_errs]; rfl)

/-! ### Response headers -/

theorem resHdrStep_errs (cred : Bool) (st : EState) (name : Bytes) :
    (resHdrStep cred st name).errs = st.errs ++ Spec.responseHeaderViolations cred name := by
  unfold resHdrStep Spec.responseHeaderViolations
  rw [star_eq]
  by_cases hs : (name == Spec.star) = true
  · simp [hs]
  · simp only [hs, Bool.false_eq_true, if_false]
    by_cases hv : Headers.isValid name = true
    · have hv' : Spec.isToken name = true := hv
      simp only [hv, hv', Bool.not_true, Bool.false_eq_true, if_false]
      unfold Headers.isForbiddenResponseHeaderName Headers.isProhibitedResponseHeaderName
      rw [SortedSet.ofList_contains, sameMembers_iff tbl_forbiddenRes, SortedSet.ofList_contains, sameMembers_iff tbl_prohibitedRes]
      split
      · rfl
      · split
        · rfl
        · split <;> simp
    · have hv' : Spec.isToken name = false := by simpa [Spec.isToken] using hv
      have hv'' : Headers.isValid name = false := by simpa using hv
      simp [hv', hv'']

theorem resHdr_fold_errs (cred : Bool) (names : List Bytes) (st : EState) :
    (names.foldl (resHdrStep cred) st).errs = st.errs ++ names.flatMap (Spec.responseHeaderViolations cred) := by
  induction names generalizing st with
  | nil => simp
  | cons n ns ih => rw [List.foldl_cons, ih, resHdrStep_errs]; simp

theorem responseHeaders_errs (cred : Bool) (names : List Bytes) :
    (Validate.responseHeaders cred names).1 = names.flatMap (Spec.responseHeaderViolations cred) := by
  unfold Validate.responseHeaders
  simp only []
  rw [resHdr_fold_errs]
  rfl

/-! ### Origins -/

theorem originStep_errs (ext : Ext) (cfg : Config) (st : OState) (raw : Bytes) :
    (originStep ext cfg.credentialed (pnaAny cfg) cfg.tolInsecure cfg.tolPSL st raw).errs =
      st.errs ++ Spec.originViolations ext cfg raw := by
  unfold originStep Spec.originViolations pnaAny
  rw [star_eq]
  by_cases hs : (raw == Spec.star) = true
  · simp only [hs, if_true, List.append_assoc]
  · simp only [hs, Bool.false_eq_true, if_false]
    cases Pat.parsePattern ext raw with
    | error r => rfl
    | ok p => simp only [List.append_assoc]

theorem origins_fold_errs (ext : Ext) (cfg : Config) (raws : List Bytes) (st : OState) :
    (raws.foldl (originStep ext cfg.credentialed (pnaAny cfg) cfg.tolInsecure cfg.tolPSL) st).errs =
      st.errs ++ raws.flatMap (Spec.originViolations ext cfg) := by
  induction raws generalizing st with
  | nil => simp
  | cons n ns ih => rw [List.foldl_cons, ih, originStep_errs]; simp

theorem origins_errs (ext : Ext) (cfg : Config) : (originsResult ext cfg).1 = Spec.originsViolations ext cfg := by
  unfold originsResult Validate.origins Spec.originsViolations
  cases he : cfg.origins.isEmpty with
  | true => rfl
  | false =>
    simp only [Bool.false_eq_true, if_false]
    rw [origins_fold_errs]
    rfl

/-! ### Integers -/

theorem status_errs (cfg : Config) : ETree.leavesList (statusErrs cfg) = Spec.statusViolations cfg.status := by
  unfold statusErrs Validate.status Spec.statusViolations
  have e1 : (Facts.cors_validatePreflightStatus_lowerBound : Int) = 200 := rfl
  have e2 : (Facts.cors_validatePreflightStatus_upperBound : Int) = 299 := rfl
  have e3 : Facts.cors_defaultPreflightStatus = 204 := rfl
  have e4 : Facts.cors_validatePreflightStatus_lowerBound = 200 := rfl
  have e5 : Facts.cors_validatePreflightStatus_upperBound = 299 := rfl
  rw [e1, e2, e3, e4, e5]
  by_cases h0 : (cfg.status == 0) = true
  · rw [if_pos h0, if_pos (by rw [h0]; rfl)]; rfl
  · rw [if_neg h0]
    by_cases hb : (decide ((200 : Int) ≤ cfg.status) && decide (cfg.status ≤ (299 : Int))) = true
    · rw [if_neg (by rw [hb]; simp), if_pos (by rw [hb]; simp)]; rfl
    · have hb' : (decide ((200 : Int) ≤ cfg.status) && decide (cfg.status ≤ (299 : Int))) = false := by simpa using hb
      have h0' : (cfg.status == 0) = false := by simpa using h0
      rw [if_pos (by rw [hb']; rfl), if_neg (by rw [hb', h0']; simp)]
      rfl

theorem maxAge_errs (cfg : Config) : ETree.leavesList (maxAgeErrs cfg) = Spec.maxAgeViolations cfg.maxAge := by
  unfold maxAgeErrs Validate.maxAge Spec.maxAgeViolations
  have e1 : Facts.cors_validateMaxAge_disableCaching = (-1 : Int) := rfl
  have e2 : (Facts.cors_validateMaxAge_upperBound : Int) = 86400 := rfl
  have e3 : Facts.cors_validateMaxAge_defaultMaxAge = 5 := rfl
  have e4 : Facts.cors_validateMaxAge_upperBound = 86400 := rfl
  rw [e1, e2, e3, e4]
  by_cases hb : (decide ((-1 : Int) ≤ cfg.maxAge) && decide (cfg.maxAge ≤ (86400 : Int))) = true
  · have h1 : (decide (cfg.maxAge < (-1 : Int)) || decide ((86400 : Int) < cfg.maxAge)) = false := by
      simp only [Bool.and_eq_true, decide_eq_true_eq] at hb
      simp only [Bool.or_eq_false_iff, decide_eq_false_iff_not]
      omega
    rw [if_neg (by rw [h1]; simp), if_pos hb]
    by_cases hm : (cfg.maxAge == (-1 : Int)) = true
    · rw [if_pos hm]; rfl
    · rw [if_neg hm]
      by_cases hz : (cfg.maxAge == 0) = true
      · rw [if_pos hz]; rfl
      · rw [if_neg hz]; rfl
  · have hb' : (decide ((-1 : Int) ≤ cfg.maxAge) && decide (cfg.maxAge ≤ (86400 : Int))) = false := by simpa using hb
    have h1 : (decide (cfg.maxAge < (-1 : Int)) || decide ((86400 : Int) < cfg.maxAge)) = true := by
      simp only [Bool.and_eq_false_iff, decide_eq_false_iff_not] at hb'
      simp only [Bool.or_eq_true, decide_eq_true_eq]
      omega
    rw [if_pos h1, if_neg (by rw [hb']; simp)]
    rfl

/-! ### Assembly -/

theorem pna_errs (cfg : Config) : ETree.leavesList (pnaErrs cfg) = Spec.pnaViolations cfg := by
  unfold pnaErrs Spec.pnaViolations
  split <;> simp [ETree.leavesList, ETree.leaves]

theorem originErrs_leaves (ext : Ext) (cfg : Config) : ETree.leavesList (originErrs ext cfg) = Spec.originsViolations ext cfg := by
  unfold originErrs
  split
  · rw [leavesList_map_leaf, origins_errs]
  · rw [leaves_fieldErr, origins_errs]

/-- **The errors `newInternalConfig` accumulates are exactly the violations of the specification**,
in order and with multiplicity. -/
theorem allErrs_leaves (ext : Ext) (cfg : Config) : ETree.leavesList (allErrs ext cfg) = Spec.prohibitions ext cfg := by
  unfold allErrs Spec.prohibitions
  simp only [leavesList_append, status_errs, pna_errs, originErrs_leaves, methodErrs, reqHdrErrs, resHdrErrs, leaves_fieldErr,
    methods_errs, requestHeaders_errs, maxAge_errs, responseHeaders_errs]

theorem leavesList_nil_iff {α : Type} (xs : List (ETree α)) (h : ∀ x ∈ xs, ETree.leaves x ≠ []) :
    ETree.leavesList xs = [] ↔ xs = [] := by
  cases xs with
  | nil => simp [ETree.leavesList]
  | cons x xs =>
    simp only [ETree.leavesList, List.append_eq_nil_iff, reduceCtorEq, iff_false, not_and]
    intro hx; exact absurd hx (h x List.mem_cons_self)

end ValidateProofs
end Cors
