import CorsVerif.Proofs.Folds
import CorsVerif.Props.C01
/-
  Twins (C15): when do two configurations mean the same thing, and why do they then build the
  same internal configuration up to the shape of the tree.
-/
namespace Cors
open Gen Validate Folds

/-- Two configurations are **twins** when their scalar fields agree and their four lists have the
same meaning as sets: the same origin patterns; the same effective methods after normalisation
(and both or neither list `*`); the same effective request-header names after byte-lowercasing
(both or neither list `*`, both or neither list a spelling of Authorization); the same effective
response-header names.  Reordering, duplicating, re-casing header names, re-spelling a
normalisable method and adding entries that validation drops (safelisted methods and response
headers) all produce twins (`Twin.of_perm`, `Twin.of_same_members`). -/
structure Twin (c1 c2 : Config) : Prop where
  credentialed : c1.credentialed = c2.credentialed
  maxAge : c1.maxAge = c2.maxAge
  status : c1.status = c2.status
  pna : c1.pna = c2.pna
  pnaNoCors : c1.pnaNoCors = c2.pnaNoCors
  tolInsecure : c1.tolInsecure = c2.tolInsecure
  tolPSL : c1.tolPSL = c2.tolPSL
  origins : ∀ raw, raw ∈ c1.origins ↔ raw ∈ c2.origins
  methodsStar : c1.methods.contains Validate.star = c2.methods.contains Validate.star
  methods : ∀ x, (∃ n ∈ c1.methods, goodMethod n = true ∧ x = Methods.normalize n) ↔
                 (∃ n ∈ c2.methods, goodMethod n = true ∧ x = Methods.normalize n)
  reqStar : c1.requestHeaders.contains Validate.star = c2.requestHeaders.contains Validate.star
  reqAuth : c1.requestHeaders.any isAuth = c2.requestHeaders.any isAuth
  req : ∀ x, (∃ n ∈ c1.requestHeaders, goodReq n = true ∧ x = n.lower) ↔
             (∃ n ∈ c2.requestHeaders, goodReq n = true ∧ x = n.lower)
  resStar : c1.responseHeaders.contains Validate.star = c2.responseHeaders.contains Validate.star
  res : ∀ x, (∃ n ∈ c1.responseHeaders, goodRes n = true ∧ x = n.lower) ↔
             (∃ n ∈ c2.responseHeaders, goodRes n = true ∧ x = n.lower)

theorem contains_congr {l1 l2 : List Bytes} (h : ∀ x, x ∈ l1 ↔ x ∈ l2) (a : Bytes) : l1.contains a = l2.contains a := by
  rw [Bool.eq_iff_iff]
  simp only [List.contains_iff_mem]
  exact h a

theorem any_congr_mem {l1 l2 : List Bytes} (h : ∀ x, x ∈ l1 ↔ x ∈ l2) (f : Bytes → Bool) : l1.any f = l2.any f := by
  rw [Bool.eq_iff_iff]
  simp only [List.any_eq_true]
  constructor
  · rintro ⟨x, hx, hf⟩; exact ⟨x, (h x).mp hx, hf⟩
  · rintro ⟨x, hx, hf⟩; exact ⟨x, (h x).mpr hx, hf⟩

theorem exists_congr_mem {l1 l2 : List Bytes} (h : ∀ x, x ∈ l1 ↔ x ∈ l2) (P : Bytes → Prop) :
    (∃ n ∈ l1, P n) ↔ (∃ n ∈ l2, P n) := by
  constructor
  · rintro ⟨x, hx, hf⟩; exact ⟨x, (h x).mp hx, hf⟩
  · rintro ⟨x, hx, hf⟩; exact ⟨x, (h x).mpr hx, hf⟩

/-- Lists with the same members (any order, any multiplicity) make twins. -/
theorem Twin.of_same_members {c1 c2 : Config}
    (hc : c1.credentialed = c2.credentialed) (hm : c1.maxAge = c2.maxAge) (hs : c1.status = c2.status)
    (hp : c1.pna = c2.pna) (hn : c1.pnaNoCors = c2.pnaNoCors) (hi : c1.tolInsecure = c2.tolInsecure)
    (hl : c1.tolPSL = c2.tolPSL)
    (ho : ∀ x, x ∈ c1.origins ↔ x ∈ c2.origins) (hme : ∀ x, x ∈ c1.methods ↔ x ∈ c2.methods)
    (hrq : ∀ x, x ∈ c1.requestHeaders ↔ x ∈ c2.requestHeaders)
    (hrs : ∀ x, x ∈ c1.responseHeaders ↔ x ∈ c2.responseHeaders) : Twin c1 c2 where
  credentialed := hc
  maxAge := hm
  status := hs
  pna := hp
  pnaNoCors := hn
  tolInsecure := hi
  tolPSL := hl
  origins := ho
  methodsStar := contains_congr hme _
  methods := fun _ => exists_congr_mem hme _
  reqStar := contains_congr hrq _
  reqAuth := any_congr_mem hrq _
  req := fun _ => exists_congr_mem hrq _
  resStar := contains_congr hrs _
  res := fun _ => exists_congr_mem hrs _

/-! ### The three folds on twins -/

theorem methods_twin {l1 l2 : List Bytes} (hs : l1.contains Validate.star = l2.contains Validate.star)
    (hm : ∀ x, (∃ n ∈ l1, goodMethod n = true ∧ x = Methods.normalize n) ↔ (∃ n ∈ l2, goodMethod n = true ∧ x = Methods.normalize n)) :
    (Validate.methods l1).2 = (Validate.methods l2).2 := by
  unfold Validate.methods
  obtain ⟨e1, a1, m1⟩ := methods_fold l1 {} SortedSet.empty_exact
  obtain ⟨e2, a2, m2⟩ := methods_fold l2 {} SortedSet.empty_exact
  have ha : (l1.foldl methodStep {}).any = (l2.foldl methodStep {}).any := by rw [a1, a2, hs]
  have hset : (l1.foldl methodStep {}).set = (l2.foldl methodStep {}).set := by
    apply SortedSet.ext_members e1 e2
    intro x
    rw [m1, m2]
    have : ∀ x : Bytes, x ∉ ({} : MState).set.elems := fun x h => by cases h
    constructor
    · rintro (h | h)
      · exact absurd h (this x)
      · exact Or.inr ((hm x).mp h)
    · rintro (h | h)
      · exact absurd h (this x)
      · exact Or.inr ((hm x).mpr h)
  simp only [ha, hset]

theorem requestHeaders_twin (cred : Bool) {l1 l2 : List Bytes}
    (hs : l1.contains Validate.star = l2.contains Validate.star) (hau : l1.any isAuth = l2.any isAuth)
    (hm : ∀ x, (∃ n ∈ l1, goodReq n = true ∧ x = n.lower) ↔ (∃ n ∈ l2, goodReq n = true ∧ x = n.lower)) :
    (Validate.requestHeaders cred l1).2 = (Validate.requestHeaders cred l2).2 := by
  unfold Validate.requestHeaders
  obtain ⟨e1, a1, b1, m1⟩ := reqHdr_fold cred l1 {} SortedSet.empty_exact
  obtain ⟨e2, a2, b2, m2⟩ := reqHdr_fold cred l2 {} SortedSet.empty_exact
  have ha : (l1.foldl (reqHdrStep cred) {}).asterisk = (l2.foldl (reqHdrStep cred) {}).asterisk := by rw [a1, a2, hs]
  have hb : (l1.foldl (reqHdrStep cred) {}).allowAuth = (l2.foldl (reqHdrStep cred) {}).allowAuth := by rw [b1, b2, hau]
  cases hst : l2.contains Validate.star with
  | true =>
    have h2 : (l2.foldl (reqHdrStep cred) {}).asterisk = true := by rw [a2, hst]; rfl
    have h1 : (l1.foldl (reqHdrStep cred) {}).asterisk = true := by rw [ha, h2]
    simp only [h1, h2, hb, Bool.not_true, Bool.false_and, Bool.false_eq_true, if_false]
  | false =>
    have hset : (l1.foldl (reqHdrStep cred) {}).set = (l2.foldl (reqHdrStep cred) {}).set := by
      apply SortedSet.ext_members e1 e2
      intro x
      rw [m1 rfl (by rw [hs, hst]), m2 rfl hst, hau]
      have : ∀ x : Bytes, x ∉ ({} : RState).set.elems := fun x h => by cases h
      constructor
      · rintro (h | h | h)
        · exact absurd h (this x)
        · exact Or.inr (Or.inl ((hm x).mp h))
        · exact Or.inr (Or.inr h)
      · rintro (h | h | h)
        · exact absurd h (this x)
        · exact Or.inr (Or.inl ((hm x).mpr h))
        · exact Or.inr (Or.inr h)
    simp only [apply_ite Prod.snd, ha, hb, hset]

theorem responseHeaders_twin (cred : Bool) {l1 l2 : List Bytes}
    (hs : l1.contains Validate.star = l2.contains Validate.star)
    (hm : ∀ x, (∃ n ∈ l1, goodRes n = true ∧ x = n.lower) ↔ (∃ n ∈ l2, goodRes n = true ∧ x = n.lower)) :
    (Validate.responseHeaders cred l1).2 = (Validate.responseHeaders cred l2).2 := by
  unfold Validate.responseHeaders
  obtain ⟨e1, a1, m1⟩ := resHdr_fold cred l1 {} SortedSet.empty_exact
  obtain ⟨e2, a2, m2⟩ := resHdr_fold cred l2 {} SortedSet.empty_exact
  have ha : (l1.foldl (resHdrStep cred) {}).all = (l2.foldl (resHdrStep cred) {}).all := by rw [a1, a2, hs]
  have hset : (l1.foldl (resHdrStep cred) {}).set = (l2.foldl (resHdrStep cred) {}).set := by
    apply SortedSet.ext_members e1 e2
    intro x
    rw [m1, m2]
    have : ∀ x : Bytes, x ∉ ({} : EState).set.elems := fun x h => by cases h
    constructor
    · rintro (h | h)
      · exact absurd h (this x)
      · exact Or.inr ((hm x).mp h)
    · rintro (h | h)
      · exact absurd h (this x)
      · exact Or.inr ((hm x).mpr h)
  simp only [ha, hset]

end Cors

namespace Cors
open Gen Validate Folds

/-- An accepted configuration is in allow-all mode exactly when it lists `*`. -/
theorem accepted_tree_isEmpty (ext : Ext) (cfg : Config) (icfg : ICfg) (acc : newInternalConfig ext cfg = .ok icfg) :
    icfg.tree.isEmpty = cfg.origins.contains Validate.star := by
  cases hs : cfg.origins.contains Validate.star with
  | true => exact C01_allow_all ext cfg icfg acc hs
  | false =>
    obtain ⟨herrs, rfl⟩ := (accepted_iff ext cfg icfg).mp acc
    obtain ⟨_, _, h2, _⟩ := allErrs_nil herrs
    unfold Validate.originErrs at h2
    cases hne : cfg.origins.isEmpty with
    | true =>
      rw [hne] at h2
      simp [Validate.originsResult, Validate.origins, hne] at h2
    | false =>
      rw [hne] at h2
      have herr := fieldErr_nil (by simpa using h2)
      simp only [Validate.build, Validate.originsResult, Validate.origins, hne] at herr ⊢
      simp only [Bool.false_eq_true, if_false] at herr ⊢
      obtain ⟨_, ha⟩ := origins_fold_parsed ext cfg.credentialed (Validate.pnaAny cfg) cfg.tolInsecure cfg.tolPSL cfg.origins {}
      have hany : (cfg.origins.foldl (Validate.originStep ext cfg.credentialed (Validate.pnaAny cfg) cfg.tolInsecure cfg.tolPSL) {}).allowAny = false := by
        rw [ha, hs]; rfl
      rw [hany]
      simp only [Bool.false_eq_true, if_false]
      have hps : cfg.origins ≠ [] := by
        intro hnil; rw [hnil] at hne; cases hne
      exact origins_fold_tree ext _ _ _ _ cfg.origins {} herr hany (Or.inl hps)

/-- In allow-all mode the stored tree is the empty tree. -/
theorem accepted_tree_star (ext : Ext) (cfg : Config) (icfg : ICfg) (acc : newInternalConfig ext cfg = .ok icfg)
    (hs : cfg.origins.contains Validate.star = true) : icfg.tree = Node.empty := by
  obtain ⟨_, rfl⟩ := (accepted_iff ext cfg icfg).mp acc
  have hne : cfg.origins.isEmpty = false := by
    cases h : cfg.origins with
    | nil => rw [h] at hs; cases hs
    | cons _ _ => rfl
  simp only [Validate.build, Validate.originsResult, Validate.origins, hne, Bool.false_eq_true, if_false]
  obtain ⟨_, ha⟩ := origins_fold_parsed ext cfg.credentialed (Validate.pnaAny cfg) cfg.tolInsecure cfg.tolPSL cfg.origins {}
  rw [ha, hs]
  rfl

theorem parsedPatterns_congr (ext : Ext) {l1 l2 : List Bytes} (h : ∀ x, x ∈ l1 ↔ x ∈ l2) (p : Pattern) :
    p ∈ parsedPatterns ext l1 ↔ p ∈ parsedPatterns ext l2 := by
  unfold parsedPatterns
  simp only [List.mem_filterMap]
  constructor
  · rintro ⟨x, hx, hf⟩; exact ⟨x, (h x).mp hx, hf⟩
  · rintro ⟨x, hx, hf⟩; exact ⟨x, (h x).mpr hx, hf⟩

/-- The handler reads the tree only through `isEmpty` (and through the decision oracle). -/
theorem serveDec_congr_tree (dec : Dec) (i : ICfg) (t : Tree) (h : t.isEmpty = i.tree.isEmpty) :
    Serve.serveDec dec { i with tree := t } = Serve.serveDec dec i := by
  funext dbg r pre
  unfold Serve.serveDec Serve.handleNonCORS Serve.handleCORSPreflight Serve.handleCORSActual Serve.preflightSteps
    Serve.processOriginForPreflight Serve.processACRPN Serve.processACRM Serve.processACRH Serve.okStatus
  simp only [h]

end Cors

namespace Cors
open Gen Validate Folds

theorem contains_map_congr (f : Bytes → Bytes) (l : List Bytes) (a : Bytes)
    (hf : ∀ n ∈ l, (f n == a) = (n == a)) : (l.map f).contains a = l.contains a := by
  induction l with
  | nil => rfl
  | cons x xs ih =>
    simp only [List.map_cons, List.contains_cons]
    rw [ih (fun n hn => hf n (List.mem_cons_of_mem _ hn)), BEq.comm (a := a), hf x List.mem_cons_self, BEq.comm (a := x)]

theorem any_map_congr (f : Bytes → Bytes) (l : List Bytes) (g : Bytes → Bool)
    (hf : ∀ n ∈ l, g (f n) = g n) : (l.map f).any g = l.any g := by
  induction l with
  | nil => rfl
  | cons x xs ih =>
    simp only [List.map_cons, List.any_cons]
    rw [ih (fun n hn => hf n (List.mem_cons_of_mem _ hn)), hf x List.mem_cons_self]

theorem exists_map_congr (f : Bytes → Bytes) (l : List Bytes) (P : Bytes → Prop)
    (hf : ∀ n ∈ l, P (f n) ↔ P n) : (∃ n ∈ l.map f, P n) ↔ (∃ n ∈ l, P n) := by
  simp only [List.mem_map]
  constructor
  · rintro ⟨_, ⟨n, hn, rfl⟩, hp⟩; exact ⟨n, hn, (hf n hn).mp hp⟩
  · rintro ⟨n, hn, hp⟩; exact ⟨f n, ⟨n, hn, rfl⟩, (hf n hn).mpr hp⟩

/-- Re-spelling the request-header names (e.g. changing their letter case) in a way that keeps
`*`, validity and the byte-lowercased name makes a twin. -/
theorem Twin.respell_requestHeaders (c : Config) (f : Bytes → Bytes)
    (hstar : ∀ n ∈ c.requestHeaders, (f n == Validate.star) = (n == Validate.star))
    (hvalid : ∀ n ∈ c.requestHeaders, Headers.isValid (f n) = Headers.isValid n)
    (hlower : ∀ n ∈ c.requestHeaders, (f n).lower = n.lower) :
    Twin { c with requestHeaders := c.requestHeaders.map f } c where
  credentialed := rfl
  maxAge := rfl
  status := rfl
  pna := rfl
  pnaNoCors := rfl
  tolInsecure := rfl
  tolPSL := rfl
  origins := fun _ => Iff.rfl
  methodsStar := rfl
  methods := fun _ => Iff.rfl
  reqStar := contains_map_congr f _ _ hstar
  reqAuth := any_map_congr f _ _ (fun n hn => by unfold isAuth; simp only [bne, hstar n hn, hvalid n hn, hlower n hn])
  req := fun x => exists_map_congr f _ _ (fun n hn => by unfold goodReq; simp only [bne, hstar n hn, hvalid n hn, hlower n hn])
  resStar := rfl
  res := fun _ => Iff.rfl

/-- The same for response-header names. -/
theorem Twin.respell_responseHeaders (c : Config) (f : Bytes → Bytes)
    (hstar : ∀ n ∈ c.responseHeaders, (f n == Validate.star) = (n == Validate.star))
    (hvalid : ∀ n ∈ c.responseHeaders, Headers.isValid (f n) = Headers.isValid n)
    (hlower : ∀ n ∈ c.responseHeaders, (f n).lower = n.lower) :
    Twin { c with responseHeaders := c.responseHeaders.map f } c where
  credentialed := rfl
  maxAge := rfl
  status := rfl
  pna := rfl
  pnaNoCors := rfl
  tolInsecure := rfl
  tolPSL := rfl
  origins := fun _ => Iff.rfl
  methodsStar := rfl
  methods := fun _ => Iff.rfl
  reqStar := rfl
  reqAuth := rfl
  req := fun _ => Iff.rfl
  resStar := contains_map_congr f _ _ hstar
  res := fun x => exists_map_congr f _ _ (fun n hn => by unfold goodRes; simp only [bne, hstar n hn, hvalid n hn, hlower n hn])

/-- Re-spelling methods in a way that keeps `*`, validity and the normalised method
(`get` for `GET`, …) makes a twin. -/
theorem Twin.respell_methods (c : Config) (f : Bytes → Bytes)
    (hstar : ∀ n ∈ c.methods, (f n == Validate.star) = (n == Validate.star))
    (hvalid : ∀ n ∈ c.methods, Methods.isValid (f n) = Methods.isValid n)
    (hnorm : ∀ n ∈ c.methods, Methods.normalize (f n) = Methods.normalize n) :
    Twin { c with methods := c.methods.map f } c where
  credentialed := rfl
  maxAge := rfl
  status := rfl
  pna := rfl
  pnaNoCors := rfl
  tolInsecure := rfl
  tolPSL := rfl
  origins := fun _ => Iff.rfl
  methodsStar := contains_map_congr f _ _ hstar
  methods := fun x => exists_map_congr f _ _ (fun n hn => by unfold goodMethod; simp only [bne, hstar n hn, hvalid n hn, hnorm n hn])
  reqStar := rfl
  reqAuth := rfl
  req := fun _ => Iff.rfl
  resStar := rfl
  res := fun _ => Iff.rfl

/-- Adding entries that validation drops silently (safelisted methods) makes a twin. -/
theorem Twin.add_safelisted_method (c : Config) (m : Bytes) (hs : (m == Validate.star) = false)
    (hsafe : Methods.isSafelisted (Methods.normalize m) = true) :
    Twin { c with methods := m :: c.methods } c where
  credentialed := rfl
  maxAge := rfl
  status := rfl
  pna := rfl
  pnaNoCors := rfl
  tolInsecure := rfl
  tolPSL := rfl
  origins := fun _ => Iff.rfl
  methodsStar := by
    show (m :: c.methods).contains Validate.star = _
    rw [List.contains_cons, BEq.comm, hs, Bool.false_or]
  methods := fun x => by
    show (∃ n ∈ m :: c.methods, _) ↔ _
    simp only [List.mem_cons, exists_eq_or_imp]
    have : goodMethod m = false := by unfold goodMethod; rw [hsafe]; simp
    rw [this]
    simp
  reqStar := rfl
  reqAuth := rfl
  req := fun _ => Iff.rfl
  resStar := rfl
  res := fun _ => Iff.rfl

theorem Twin.symm {c1 c2 : Config} (h : Twin c1 c2) : Twin c2 c1 :=
  ⟨h.credentialed.symm, h.maxAge.symm, h.status.symm, h.pna.symm, h.pnaNoCors.symm, h.tolInsecure.symm, h.tolPSL.symm,
   fun x => (h.origins x).symm, h.methodsStar.symm, fun x => (h.methods x).symm, h.reqStar.symm, h.reqAuth.symm,
   fun x => (h.req x).symm, h.resStar.symm, fun x => (h.res x).symm⟩

theorem Twin.trans {c1 c2 c3 : Config} (h : Twin c1 c2) (g : Twin c2 c3) : Twin c1 c3 :=
  ⟨h.credentialed.trans g.credentialed, h.maxAge.trans g.maxAge, h.status.trans g.status, h.pna.trans g.pna,
   h.pnaNoCors.trans g.pnaNoCors, h.tolInsecure.trans g.tolInsecure, h.tolPSL.trans g.tolPSL,
   fun x => (h.origins x).trans (g.origins x), h.methodsStar.trans g.methodsStar, fun x => (h.methods x).trans (g.methods x),
   h.reqStar.trans g.reqStar, h.reqAuth.trans g.reqAuth, fun x => (h.req x).trans (g.req x), h.resStar.trans g.resStar,
   fun x => (h.res x).trans (g.res x)⟩

end Cors
