import CorsVerif.Proofs.RoundTrip
import CorsVerif.Proofs.RenderIdem
/-
  The origins part of C06: the patterns that `Tree.Elems` renders are among the configured ones
  and build an equivalent tree.
-/
namespace Cors
open Gen Pat Node RoundTrip

namespace TreeRT

theorem fold_suf (ps : List Pattern) (t : Tree) : (ps.foldl Tree.insert t).suf = t.suf := by
  induction ps generalizing t with
  | nil => rfl
  | cons p ps ih => rw [List.foldl_cons, ih, tree_insert_eq, insert_suf]

/-- Every stored entry of a tree built by insertions is the entry of one of the inserted patterns. -/
theorem fold_entries (ps : List Pattern) (t : Tree) (e : Bytes × Bytes × Int)
    (he : e ∈ entries (ps.foldl Tree.insert t)) : e ∈ entries t ∨ ∃ p ∈ ps, e = entryOf p := by
  induction ps generalizing t with
  | nil => exact Or.inl he
  | cons p ps ih =>
    rw [List.foldl_cons] at he
    rcases ih _ he with h | ⟨q, hq, rfl⟩
    · rw [tree_insert_eq] at h
      rcases store_spec t _ _ _ _ e h with h' | h'
      · exact Or.inl h'
      · exact Or.inr ⟨p, List.mem_cons_self, h'⟩
    · exact Or.inr ⟨q, List.mem_cons_of_mem _ hq, rfl⟩

theorem empty_entries : entries Node.empty = [] := by
  unfold Node.empty
  rw [entries_mk, entriesKids_nil]
  rfl

/-- The coverage of the stored entry of a pattern is the coverage C01 speaks of. -/
theorem ecov_entryOf (p : Pattern) (hp : p.port ≤ 65536) (o : Origin) :
    ecov (entryOf p) o.host.value.reverse o.scheme o.port = treeCovers p o := by
  unfold ecov entryOf treeCovers
  simp only []
  have hO : portOffset = 65537 := rfl
  cases hw : (treeKey p).2 with
  | true =>
    have h1 : decodePort (code (p.port : Int) true) = p.port := by
      unfold decodePort code; rw [hO]; simp only [if_true]
      rw [if_pos (by omega)]; omega
    have h2 : decodeWild (code (p.port : Int) true) = true := by
      unfold decodeWild code; rw [hO]; simp; omega
    rw [h1, h2]
  | false =>
    have h1 : decodePort (code (p.port : Int) false) = p.port := by
      unfold decodePort code; simp; omega
    have h2 : decodeWild (code (p.port : Int) false) = false := by
      unfold decodeWild code; simp
    rw [h1, h2]

/-- An origin that a pattern certainly denotes (used to show that a non-empty tree renders something). -/
def witness (p : Pattern) : Origin where
  scheme := p.scheme
  host := { value := if p.kind == .subdomains then 97 :: 46 :: Spec.baseOf p else p.value, assumeIP := false }
  port := if p.port = 65536 then 0 else p.port

theorem witness_denoted (p : Pattern) (hp : p.port ≤ 65536) :
    Spec.denotes p (witness p) = true ∧ (witness p).port ≤ 65535 := by
  unfold Spec.denotes witness
  refine ⟨?_, by simp only []; split <;> omega⟩
  simp only [beq_self_eq_true, Bool.true_and, Bool.and_eq_true, Bool.or_eq_true, beq_iff_eq, Facts.origins_wildcardPort]
  refine ⟨?_, ?_⟩
  · by_cases hk : p.kind = Kind.subdomains
    · simp only [hk, beq_self_eq_true, if_true, List.length_cons, decide_eq_true_eq, Bool.and_eq_true]
      refine ⟨by omega, ?_⟩
      exact List.isSuffixOf_iff_suffix.mpr ⟨[97], rfl⟩
    · simp [hk]
  · by_cases h : p.port = 65536
    · exact Or.inl h
    · right; simp [h]

end TreeRT
end Cors

namespace Cors
open Gen Pat Node RoundTrip Validate
namespace TreeRT

/-- What one listed origin contributes to the errors of `validateOrigins` (a function of the
entry and of the scalar switches only). -/
def rawErrs (ext : Ext) (cred pnaAny tolI tolP : Bool) (raw : Bytes) : List CfgErr :=
  if raw == Validate.star then
    (if cred then [CfgErr.incompatOrigin Validate.star .credentialed] else [])
      ++ (if pnaAny then [CfgErr.incompatOrigin Validate.star .pna] else [])
  else match Pat.parsePattern ext raw with
    | .error r => [.originPattern raw r]
    | .ok p =>
      (if Pat.isDeemedInsecure p && !tolI then
          (if cred then [CfgErr.incompatOrigin raw .credentialed] else [])
          ++ (if pnaAny then [CfgErr.incompatOrigin raw .pna] else [])
        else [])
      ++ (if p.kind == .subdomains && !tolP && Pat.hostIsEffectiveTLD ext p then [CfgErr.incompatOrigin raw .psl] else [])

theorem originStep_errs (ext : Ext) (cred pnaAny tolI tolP : Bool) (st : OState) (raw : Bytes) :
    (originStep ext cred pnaAny tolI tolP st raw).errs = st.errs ++ rawErrs ext cred pnaAny tolI tolP raw := by
  unfold originStep rawErrs
  split
  · simp only [List.append_assoc]
  · cases hp : Pat.parsePattern ext raw with
    | error r => rfl
    | ok p => simp only [List.append_assoc]

theorem fold_errs (ext : Ext) (cred pnaAny tolI tolP : Bool) (raws : List Bytes) (st : OState) :
    (raws.foldl (originStep ext cred pnaAny tolI tolP) st).errs =
      st.errs ++ raws.flatMap (rawErrs ext cred pnaAny tolI tolP) := by
  induction raws generalizing st with
  | nil => simp
  | cons r rs ih => rw [List.foldl_cons, ih, originStep_errs, List.flatMap_cons, List.append_assoc]

theorem mem_parsed {ext : Ext} {raws : List Bytes} {p : Pattern} :
    p ∈ parsedPatterns ext raws ↔ ∃ raw ∈ raws, raw ≠ Validate.star ∧ Pat.parsePattern ext raw = .ok p := by
  unfold parsedPatterns
  simp only [List.mem_filterMap]
  constructor
  · rintro ⟨raw, hr, h⟩
    split at h
    · cases h
    · rename_i hs
      cases hp : Pat.parsePattern ext raw with
      | error r => rw [hp] at h; cases h
      | ok q =>
        rw [hp] at h
        simp only [Option.some.injEq] at h
        subst h
        exact ⟨raw, hr, by simpa using hs, hp⟩
  · rintro ⟨raw, hr, hs, hp⟩
    refine ⟨raw, hr, ?_⟩
    have : (raw == Validate.star) = false := by simpa using hs
    simp [this, hp]

/-- The listed origins are acceptable: not empty, no `*`, no violation. -/
structure OriginsOK (ext : Ext) (cred pnaAny tolI tolP : Bool) (raws : List Bytes) : Prop where
  ne : raws ≠ []
  nostar : raws.contains Validate.star = false
  clean : ∀ raw ∈ raws, rawErrs ext cred pnaAny tolI tolP raw = []

theorem ok_parses {ext : Ext} {cred pnaAny tolI tolP : Bool} {raws : List Bytes} (h : OriginsOK ext cred pnaAny tolI tolP raws)
    {raw : Bytes} (hr : raw ∈ raws) : raw ≠ Validate.star ∧ ∃ p, Pat.parsePattern ext raw = .ok p := by
  have hs : raw ≠ Validate.star := by
    intro h0
    have := h.nostar
    rw [h0] at hr
    have hc := List.contains_iff_mem.mpr hr
    rw [hc] at this; cases this
  refine ⟨hs, ?_⟩
  have hc := h.clean raw hr
  unfold rawErrs at hc
  have : (raw == Validate.star) = false := by simpa using hs
  rw [this] at hc
  simp only [Bool.false_eq_true, if_false] at hc
  cases hp : Pat.parsePattern ext raw with
  | error r => rw [hp] at hc; simp at hc
  | ok p => exact ⟨p, rfl⟩

/-- Whether a listed string raises an error depends on the pattern it parses to, not on its spelling. -/
theorem rawErrs_nil_congr (ext : Ext) (cred pnaAny tolI tolP : Bool) {raw raw' : Bytes} {p : Pattern}
    (h1 : raw ≠ Validate.star) (h2 : raw' ≠ Validate.star)
    (hp : Pat.parsePattern ext raw = .ok p) (hp' : Pat.parsePattern ext raw' = .ok p)
    (h : rawErrs ext cred pnaAny tolI tolP raw = []) : rawErrs ext cred pnaAny tolI tolP raw' = [] := by
  unfold rawErrs at h ⊢
  have e1 : (raw == Validate.star) = false := by simpa using h1
  have e2 : (raw' == Validate.star) = false := by simpa using h2
  rw [e1, hp] at h
  rw [e2, hp']
  simp only [Bool.false_eq_true, if_false] at h ⊢
  cases hc1 : (Pat.isDeemedInsecure p && !tolI) <;> cases cred <;> cases pnaAny <;>
    cases hc2 : (p.kind == .subdomains && !tolP && Pat.hostIsEffectiveTLD ext p) <;> simp_all

/-- What `Tree.Elems` shows for a tree built from acceptable strings: every element is the rendering of a
stored entry, is not `*`, parses to one of the listed patterns (the one whose entry it renders) and is as
acceptable as the string that pattern was listed as. -/
theorem elems_facts (ext : Ext) (hext : ∀ h info, ext.ip6 h = some info → h.head? ≠ some 42)
    (cred pnaAny tolI tolP : Bool) (raws : List Bytes) (hok : OriginsOK ext cred pnaAny tolI tolP raws) :
    ∀ e ∈ entries ((parsedPatterns ext raws).foldl Tree.insert Node.empty),
      ∃ p ∈ parsedPatterns ext raws, e = entryOf p ∧ renderEntry e.2.1 e.1.reverse e.2.2 ≠ Validate.star ∧
        Pat.parsePattern ext (renderEntry e.2.1 e.1.reverse e.2.2) = .ok p ∧
        rawErrs ext cred pnaAny tolI tolP (renderEntry e.2.1 e.1.reverse e.2.2) = [] := by
  intro e he
  rcases fold_entries _ _ e he with h | ⟨p, hp, rfl⟩
  · rw [empty_entries] at h; cases h
  · obtain ⟨raw, hr, hs, hpp⟩ := mem_parsed.mp hp
    have hwf := C01_parsed ext hext raw p hpp
    have hre : Pat.parsePattern ext (renderOf p) = .ok p := RenderIdem.parse_render ext hwf hpp
    have hns : renderOf p ≠ Validate.star := by
      intro h0
      rw [h0] at hre
      have : Pat.parsePattern ext Validate.star = .error .prohibited := by
        unfold Pat.parsePattern
        rw [if_pos (by decide)]
      rw [this] at hre
      cases hre
    exact ⟨p, hp, rfl, hns, hre, rawErrs_nil_congr ext cred pnaAny tolI tolP hs hns hpp hre (hok.clean raw hr)⟩

/-- **The origins part of the round trip.** -/
theorem origins_roundtrip (ext : Ext) (hext : ∀ h info, ext.ip6 h = some info → h.head? ≠ some 42)
    (cred pnaAny tolI tolP : Bool) (raws : List Bytes) (hok : OriginsOK ext cred pnaAny tolI tolP raws) :
    (∀ x ∈ Tree.elems ((parsedPatterns ext raws).foldl Tree.insert Node.empty),
      x ≠ Validate.star ∧ rawErrs ext cred pnaAny tolI tolP x = [] ∧
      ∃ p ∈ parsedPatterns ext raws, Pat.parsePattern ext x = .ok p) ∧
    Tree.elems ((parsedPatterns ext raws).foldl Tree.insert Node.empty) ≠ [] ∧
    ∀ o : Origin, o.port ≤ 65535 →
      Tree.contains ((parsedPatterns ext (Tree.elems ((parsedPatterns ext raws).foldl Tree.insert Node.empty))).foldl Tree.insert Node.empty) o =
        Tree.contains ((parsedPatterns ext raws).foldl Tree.insert Node.empty) o := by
  -- facts about the listed patterns
  have hwf : ∀ p ∈ parsedPatterns ext raws, p.WF := by
    intro p hp
    obtain ⟨raw, _, _, hpp⟩ := mem_parsed.mp hp
    exact C01_parsed ext hext raw p hpp
  have hsuf : ((parsedPatterns ext raws).foldl Tree.insert Node.empty).suf = [] := by
    rw [fold_suf]; rfl
  have hinv := C01_invariant (parsedPatterns ext raws) hwf
  have hback := elems_facts ext hext cred pnaAny tolI tolP raws hok
  have hsub : ∀ x ∈ Tree.elems ((parsedPatterns ext raws).foldl Tree.insert Node.empty),
      x ≠ Validate.star ∧ rawErrs ext cred pnaAny tolI tolP x = [] ∧
      ∃ p ∈ parsedPatterns ext raws, Pat.parsePattern ext x = .ok p := by
    intro x hx
    obtain ⟨e, he, rfl⟩ := (tree_elems_mem _ hsuf x).mp hx
    obtain ⟨p, hp, _, hns, hpp, hcl⟩ := hback e he
    exact ⟨hns, hcl, p, hp, hpp⟩
  refine ⟨hsub, ?_, ?_⟩
  · -- not empty: some listed pattern denotes its witness, so the tree has an entry
    obtain ⟨raw0, hraw0⟩ : ∃ raw0, raw0 ∈ raws := by
      cases hr : raws with
      | nil => exact absurd hr hok.ne
      | cons a _ => exact ⟨a, List.mem_cons_self⟩
    obtain ⟨hs0, p0, hp0⟩ := ok_parses hok hraw0
    have hmem0 : p0 ∈ parsedPatterns ext raws := mem_parsed.mpr ⟨raw0, hraw0, hs0, hp0⟩
    obtain ⟨hden, hport⟩ := witness_denoted p0 (hwf p0 hmem0).port
    have hcont : Tree.contains ((parsedPatterns ext raws).foldl Tree.insert Node.empty) (witness p0) = true := by
      rw [C01_tree _ hwf _ hport]
      exact List.any_eq_true.mpr ⟨p0, hmem0, hden⟩
    unfold Tree.contains at hcont
    rw [contains_eq_entries _ hinv _ _ _ ⟨by omega, by omega⟩] at hcont
    obtain ⟨e, he, _⟩ := List.any_eq_true.mp hcont
    intro hnil
    have : renderEntry e.2.1 e.1.reverse e.2.2 ∈ Tree.elems ((parsedPatterns ext raws).foldl Tree.insert Node.empty) :=
      (tree_elems_mem _ hsuf _).mpr ⟨e, he, rfl⟩
    rw [hnil] at this; cases this
  · intro o ho
    have hwf' : ∀ p ∈ parsedPatterns ext (Tree.elems ((parsedPatterns ext raws).foldl Tree.insert Node.empty)), p.WF := by
      intro p hp
      obtain ⟨raw, _, _, hpp⟩ := mem_parsed.mp hp
      exact C01_parsed ext hext raw p hpp
    rw [C01_tree _ hwf' o ho, C01_tree _ hwf o ho, Bool.eq_iff_iff]
    simp only [List.any_eq_true]
    constructor
    · rintro ⟨p, hp, hd⟩
      obtain ⟨x, hx, _, hpp⟩ := mem_parsed.mp hp
      obtain ⟨_, _, q, hq, hqq⟩ := hsub x hx
      rw [hpp] at hqq
      cases hqq
      exact ⟨p, hq, hd⟩
    · rintro ⟨p, hp, hd⟩
      -- the tree contains o, so some stored entry covers it; that entry is rendered and parses back
      have hcont : Tree.contains ((parsedPatterns ext raws).foldl Tree.insert Node.empty) o = true := by
        rw [C01_tree _ hwf o ho]
        exact List.any_eq_true.mpr ⟨p, hp, hd⟩
      unfold Tree.contains at hcont
      rw [contains_eq_entries _ hinv _ _ _ ⟨by omega, by omega⟩] at hcont
      obtain ⟨e, he, hcov⟩ := List.any_eq_true.mp hcont
      obtain ⟨q, hq, heq, hns, hpp, _⟩ := hback e he
      refine ⟨q, mem_parsed.mpr ⟨renderEntry e.2.1 e.1.reverse e.2.2, ?_, hns, hpp⟩, ?_⟩
      · exact (tree_elems_mem _ hsuf _).mpr ⟨e, he, rfl⟩
      · rw [heq, ecov_entryOf q (hwf q hq).port o] at hcov
        rw [← treeCovers_eq_denotes q (hwf q hq) o]
        exact hcov

end TreeRT
end Cors
