import CorsVerif.Proofs.Tree
/-
  The stored entries of a tree, and the fact that a tree denotes exactly the union of the
  coverages of its stored entries (for any tree satisfying the invariant, however built).
-/
namespace Cors
open Gen
namespace Node

/-- A stored port code, decoded: the port and whether the entry is a wildcard-subdomains one. -/
def decodePort (c : Int) : Int := if c < 0 then c + 65537 else c
def decodeWild (c : Int) : Bool := decide (c < 0)

/-- The (scheme, code) pairs of a scheme table. -/
def own (S : List (Bytes × List Int)) : List (Bytes × Int) :=
  S.flatMap fun e => e.2.map fun c => (e.1, c)

mutual
/-- The stored entries of a node, keys relative to the position after the node's own suffix. -/
def entries : Node → List (Bytes × Bytes × Int)
  | .mk _ S K => (own S).map (fun e => ([], e.1, e.2)) ++ entriesKids K
def entriesKids : List (Nat × Node) → List (Bytes × Bytes × Int)
  | [] => []
  | (_, c) :: rest => (entries c).map (fun e => (c.suf ++ e.1, e.2.1, e.2.2)) ++ entriesKids rest
end

/-- Coverage of a stored entry. -/
def ecov (e : Bytes × Bytes × Int) (h sch' : Bytes) (p' : Int) : Bool :=
  entryCovers e.1 e.2.1 (decodePort e.2.2) (decodeWild e.2.2) h sch' p'

theorem entries_mk (suf : Bytes) (S : List (Bytes × List Int)) (K : List (Nat × Node)) :
    entries (.mk suf S K) = (own S).map (fun e => ([], e.1, e.2)) ++ entriesKids K := by
  rw [entries]

theorem entriesKids_cons (l : Nat) (c : Node) (rest : List (Nat × Node)) :
    entriesKids ((l, c) :: rest) = (entries c).map (fun e => (c.suf ++ e.1, e.2.1, e.2.2)) ++ entriesKids rest := by
  rw [entriesKids]

theorem entriesKids_nil : entriesKids [] = [] := by rw [entriesKids]

/-! ### own entries = `containsPort` -/

theorem lookup_unique {S : List (Bytes × List Int)} (hS : SchemesOK S) {sch : Bytes} {ps : List Int}
    (hm : (sch, ps) ∈ S) : lookupScheme sch S = some ps := by
  induction S with
  | nil => cases hm
  | cons e rest ih =>
    obtain ⟨s, qs⟩ := e
    simp only [lookupScheme]
    rcases List.mem_cons.mp hm with heq | hmem
    · cases heq; simp
    · have hlt : Bytes.lt s sch = true := by
        have := (List.pairwise_cons.mp hS.keys).1 sch (List.mem_map.mpr ⟨(sch, ps), hmem, rfl⟩)
        exact this
      have : (s == sch) = false := by
        simp only [beq_eq_false_iff_ne, ne_eq]
        intro h; subst h; rw [Bytes.lt_irrefl] at hlt; cases hlt
      rw [this]
      simp only [Bool.false_eq_true, if_false]
      exact ih (SchemesOK_tail hS) hmem

theorem mem_own {S : List (Bytes × List Int)} {sch : Bytes} {c : Int} :
    (sch, c) ∈ own S ↔ ∃ ps, (sch, ps) ∈ S ∧ c ∈ ps := by
  unfold own
  simp only [List.mem_flatMap, List.mem_map, Prod.mk.injEq]
  constructor
  · rintro ⟨⟨s, ps⟩, hm, c', hc, rfl, rfl⟩; exact ⟨ps, hm, hc⟩
  · rintro ⟨ps, hm, hc⟩; exact ⟨(sch, ps), hm, c, hc, rfl, rfl⟩

/-- The entries stored at a node itself cover exactly what `node.contains` accepts there. -/
theorem own_cover (S : List (Bytes × List Int)) (hS : SchemesOK S) (h sch' : Bytes) (p' : Int) (hp' : 0 ≤ p' ∧ p' ≤ 65535) :
    ((own S).map (fun e => (([] : Bytes), e.1, e.2))).any (fun e => ecov e h sch' p') =
      containsPort S sch' p' (!h.isEmpty) := by
  rw [Bool.eq_iff_iff]
  simp only [List.any_eq_true, List.mem_map]
  rw [containsPort_eq]
  constructor
  · rintro ⟨e, ⟨⟨sch, c⟩, hm, rfl⟩, hc⟩
    obtain ⟨ps, hS', hcps⟩ := mem_own.mp hm
    unfold ecov at hc
    simp only [entryCovers_nil_key, Bool.and_eq_true, beq_iff_eq, Bool.or_eq_true] at hc
    obtain ⟨hsch, hw, hp⟩ := hc
    subst hsch
    rw [lookup_unique hS hS']
    simp only [covers_iff]
    unfold decodeWild at hw
    unfold decodePort at hp
    by_cases hneg : c < 0
    · have hwt : (!h.isEmpty) = true := by rw [← hw]; simp [hneg]
      rw [hwt, code_true, wildCode_true]
      rw [if_pos hneg] at hp
      rcases hp with hp | hp
      · left; have : c = p' - 65537 := by omega
        rw [← this]; exact hcps
      · right; have : c = -1 := by omega
        rw [← this]; exact hcps
    · have hwt : (!h.isEmpty) = false := by rw [← hw]; simp [hneg]
      rw [hwt, code_false, wildCode_false]
      rw [if_neg hneg] at hp
      rcases hp with hp | hp
      · left; rw [← hp]; exact hcps
      · right; rw [← hp]; exact hcps
  · intro hc
    cases hl : lookupScheme sch' S with
    | none => rw [hl] at hc; cases hc
    | some ps =>
      rw [hl] at hc
      simp only [covers_iff] at hc
      have hmem := lookup_mem hl
      have key : ∀ c, c ∈ ps → (decodeWild c = !h.isEmpty) → (decodePort c = p' ∨ decodePort c = 65536) →
          ∃ e, (∃ a, a ∈ own S ∧ (([] : Bytes), a.1, a.2) = e) ∧ ecov e h sch' p' = true := by
        intro c hc hw hp
        refine ⟨([], sch', c), ⟨(sch', c), mem_own.mpr ⟨ps, hmem, hc⟩, rfl⟩, ?_⟩
        unfold ecov
        simp only [entryCovers_nil_key, Bool.and_eq_true, beq_iff_eq, Bool.or_eq_true]
        exact ⟨trivial, by rw [hw], hp⟩
      cases hemp : h.isEmpty with
      | true =>
        rw [hemp] at hc
        simp only [Bool.not_true, code_false, wildCode_false] at hc
        rcases hc with hc | hc
        · exact key p' hc (by simp [decodeWild, hemp]; omega) (Or.inl (by simp [decodePort]; omega))
        · exact key 65536 hc (by simp [decodeWild, hemp]) (Or.inr (by simp [decodePort]))
      | false =>
        rw [hemp] at hc
        simp only [Bool.not_false, code_true, wildCode_true] at hc
        rcases hc with hc | hc
        · exact key (p' - 65537) hc (by simp [decodeWild, hemp]; omega) (Or.inl (by simp [decodePort]; omega))
        · exact key (-1) hc (by simp [decodeWild, hemp]) (Or.inr (by simp [decodePort]))

/-! ### a tree denotes the union of the coverages of its stored entries -/

def kidsLookup (K : List (Nat × Node)) (h sch' : Bytes) (p' : Int) : Bool :=
  match h with
  | [] => false
  | x :: _ => containsKids K x h sch' p'

def DenSpec (n : Node) : Prop :=
  Inv n → ∀ (h sch' : Bytes) (p' : Int), 0 ≤ p' ∧ p' ≤ 65535 →
    contains n h sch' p' = (entries n).any (fun e => ecov e h sch' p')

def DenKidsSpec (K : List (Nat × Node)) : Prop :=
  KidsInv K → ∀ (h sch' : Bytes) (p' : Int), 0 ≤ p' ∧ p' ≤ 65535 →
    kidsLookup K h sch' p' = (entriesKids K).any (fun e => ecov e h sch' p')

theorem ecov_prepend (pre : Bytes) (e : Bytes × Bytes × Int) (h sch' : Bytes) (p' : Int) :
    ecov (pre ++ e.1, e.2.1, e.2.2) (pre ++ h) sch' p' = ecov e h sch' p' := by
  unfold ecov
  exact entryCovers_cancel pre e.1 e.2.1 _ _ h sch' p'

theorem ecov_not_prefix (k : Bytes) (e : Bytes × Bytes × Int) (h sch' : Bytes) (p' : Int)
    (hn : k.isPrefixOf h = false) : ecov (k ++ e.1, e.2.1, e.2.2) h sch' p' = false := by
  unfold ecov
  exact entryCovers_not_prefix _ _ _ _ _ _ _ (isPrefixOf_append_left_false hn)

mutual
theorem den_spec : (n : Node) → DenSpec n
  | .mk suf S K => by
    intro hinv h sch' p' hp'
    obtain ⟨hS, hK⟩ := Inv_mk.mp hinv
    rw [entries_mk, List.any_append, own_cover S hS h sch' p' hp', ← den_kids_spec K hK h sch' p' hp']
    cases h with
    | nil => rw [contains_nil_host]; simp [kidsLookup]
    | cons x t => rw [contains_cons_host]; simp [kidsLookup]

theorem den_kids_spec : (K : List (Nat × Node)) → DenKidsSpec K
  | [] => by
    intro _ h sch' p' _
    rw [entriesKids_nil]
    cases h with
    | nil => rfl
    | cons x t => simp [kidsLookup, containsKids_nil]
  | (l, c) :: rest => by
    intro hK h sch' p' hp'
    obtain ⟨hhead, hc, hlt, hrest⟩ := KidsInv_cons.mp hK
    have ihr := den_kids_spec rest hrest h sch' p' hp'
    have ihc := den_spec c hc
    rw [entriesKids_cons, List.any_append, ← ihr, List.any_map]
    -- the suffix of the child starts with its label
    obtain ⟨ct, hct⟩ : ∃ ct, c.suf = l :: ct := by
      cases hs : c.suf with
      | nil => rw [hs] at hhead; cases hhead
      | cons a ct => rw [hs] at hhead; simp at hhead; subst hhead; exact ⟨ct, rfl⟩
    cases h with
    | nil =>
      -- nothing below a child covers the empty rest
      have : (entries c).any ((fun e => ecov e [] sch' p') ∘ fun e => (c.suf ++ e.1, e.2.1, e.2.2)) = false := by
        simp only [List.any_eq_false, Function.comp]
        intro e _
        rw [hct]
        unfold ecov
        simp only [List.cons_append]
        rw [entryCovers_nil_host]
        simp
      rw [this]
      simp [kidsLookup]
    | cons x t =>
      simp only [kidsLookup]
      rw [containsKids_cons]
      by_cases hx : x = l
      · subst hx
        simp only [beq_self_eq_true, if_true]
        have hrest0 : containsKids rest x (x :: t) sch' p' = false := containsKids_none_of_lt rest x _ _ _ hlt
        rw [hrest0, Bool.or_false]
        unfold childLookup
        cases hsp : stripPrefix c.suf (x :: t) with
        | none =>
          simp only []
          symm
          simp only [List.any_eq_false, Function.comp]
          intro e _
          rw [ecov_not_prefix c.suf e _ _ _ (isPrefixOf_of_strip_none hsp)]
          simp
        | some h' =>
          have hh : x :: t = c.suf ++ h' := stripPrefix_some_iff.mp hsp
          simp only []
          rw [ihc h' sch' p' hp', hh]
          congr 1
          funext e
          simp only [Function.comp]
          rw [ecov_prepend]
      · have hb : (x == l) = false := by simpa using hx
        rw [hb]
        simp only [Bool.false_eq_true, if_false]
        have : (entries c).any ((fun e => ecov e (x :: t) sch' p') ∘ fun e => (c.suf ++ e.1, e.2.1, e.2.2)) = false := by
          simp only [List.any_eq_false, Function.comp]
          intro e _
          rw [hct]
          unfold ecov
          simp only [List.cons_append]
          rw [entryCovers_head_ne _ _ _ _ _ _ _ _ _ (fun hh => hx hh.symm)]
          simp
        rw [this, Bool.false_or]
end

/-- **The tree denotes the union of its stored entries** (root: the suffix is empty). -/
theorem contains_eq_entries (t : Node) (hinv : Inv t) (h sch' : Bytes) (p' : Int) (hp' : 0 ≤ p' ∧ p' ≤ 65535) :
    contains t h sch' p' = (entries t).any (fun e => ecov e h sch' p') :=
  den_spec t hinv h sch' p' hp'

/-! ### insertion stores nothing but the new entry -/

theorem deleteSameSign_subset (l : List Int) (v x : Int) (h : x ∈ deleteSameSign l v) : x ∈ l := by
  unfold deleteSameSign at h
  split at h
  · exact (List.dropWhile_sublist _).subset h
  · exact (List.takeWhile_sublist _).subset h

theorem own_cons (e : Bytes × List Int) (S : List (Bytes × List Int)) :
    own (e :: S) = e.2.map (fun c => (e.1, c)) ++ own S := by
  simp [own]

theorem own_addScheme (S : List (Bytes × List Int)) (sch : Bytes) (c : Int) (w : Bool) (x : Bytes × Int)
    (hx : x ∈ own (addScheme sch c w S)) : x ∈ own S ∨ x = (sch, c) := by
  induction S with
  | nil =>
    simp [addScheme, own] at hx
    exact Or.inr hx
  | cons e rest ih =>
    obtain ⟨s, ps⟩ := e
    simp only [addScheme] at hx
    split at hx
    · rename_i heq
      have hs : s = sch := by simpa using heq
      rw [own_cons] at hx
      simp only [List.mem_append, List.mem_map] at hx
      rcases hx with ⟨c', hc', rfl⟩ | hx
      · rw [insertSorted_int_mem] at hc'
        rcases hc' with rfl | hc'
        · exact Or.inr (by rw [hs])
        · left
          rw [own_cons]
          simp only [List.mem_append, List.mem_map]
          left
          refine ⟨c', ?_, rfl⟩
          split at hc'
          · exact deleteSameSign_subset _ _ _ hc'
          · exact hc'
      · left; rw [own_cons]; exact List.mem_append_right _ hx
    · split at hx
      · rw [own_cons] at hx
        simp only [List.map_cons, List.map_nil, List.mem_append, List.mem_singleton] at hx
        rcases hx with hx | hx
        · exact Or.inr hx
        · exact Or.inl hx
      · rw [own_cons] at hx ⊢
        simp only [List.mem_append] at hx ⊢
        rcases hx with hx | hx
        · exact Or.inl (Or.inl hx)
        · rcases ih hx with h | h
          · exact Or.inl (Or.inr h)
          · exact Or.inr h

theorem own_addPort (S : List (Bytes × List Int)) (sch : Bytes) (p : Int) (w : Bool) (x : Bytes × Int)
    (hx : x ∈ own (addPort S sch p w)) : x ∈ own S ∨ x = (sch, code p w) := by
  unfold addPort at hx
  split at hx
  · exact Or.inl hx
  · exact own_addScheme S sch _ _ x hx

/-- `entries` ignores the node's own suffix. -/
theorem entries_suf_irrel (s1 s2 : Bytes) (S : List (Bytes × List Int)) (K : List (Nat × Node)) :
    entries (.mk s1 S K) = entries (.mk s2 S K) := by rw [entries_mk, entries_mk]

theorem insert_suf (n : Node) (s sch : Bytes) (p : Int) (w : Bool) : (insert n s sch p w).suf = n.suf := by
  cases n with
  | mk suf S K =>
    cases s with
    | nil => rw [insert]; rfl
    | cons l t => rw [insert]; split <;> rfl

/-- The entries of a child, with keys relative to the parent's position. -/
def childEntries (c : Node) : List (Bytes × Bytes × Int) := (entries c).map (fun e => (c.suf ++ e.1, e.2.1, e.2.2))

theorem entriesKids_cons' (l : Nat) (c : Node) (rest : List (Nat × Node)) :
    entriesKids ((l, c) :: rest) = childEntries c ++ entriesKids rest := entriesKids_cons l c rest

theorem leaf_entries (s sch : Bytes) (p : Int) (w : Bool) (e : Bytes × Bytes × Int) (he : e ∈ childEntries (leaf s sch p w)) :
    e = (s, sch, code p w) := by
  unfold childEntries leaf at he
  rw [entries_mk, entriesKids_nil, List.append_nil] at he
  simp only [List.mem_map, Node.suf] at he
  obtain ⟨e', ⟨x, hx, rfl⟩, rfl⟩ := he
  rcases own_addPort [] sch p w x hx with h | h
  · simp [own] at h
  · subst h; simp

theorem upsert_entries (l : Nat) (child : Node) (K : List (Nat × Node)) (e : Bytes × Bytes × Int)
    (he : e ∈ entriesKids (upsert l child K)) : e ∈ entriesKids K ∨ e ∈ childEntries child := by
  induction K with
  | nil =>
    simp only [upsert] at he
    rw [entriesKids_cons', entriesKids_nil, List.append_nil] at he
    exact Or.inr he
  | cons x rest ih =>
    obtain ⟨l', c'⟩ := x
    simp only [upsert] at he
    split at he
    · rw [entriesKids_cons'] at he
      rcases List.mem_append.mp he with h | h
      · exact Or.inr h
      · exact Or.inl h
    · split at he
      · rw [entriesKids_cons'] at he
        rcases List.mem_append.mp he with h | h
        · exact Or.inr h
        · left; rw [entriesKids_cons']; exact List.mem_append_right _ h
      · rw [entriesKids_cons'] at he ⊢
        rcases List.mem_append.mp he with h | h
        · exact Or.inl (List.mem_append_left _ h)
        · rcases ih h with h' | h'
          · exact Or.inl (List.mem_append_right _ h')
          · exact Or.inr h'

def StoreSpec (n : Node) : Prop :=
  ∀ (s sch : Bytes) (p : Int) (w : Bool) (e : Bytes × Bytes × Int),
    e ∈ entries (insert n s sch p w) → e ∈ entries n ∨ e = (s, sch, code p w)

def StoreKidsSpec (K : List (Nat × Node)) : Prop :=
  ∀ (label : Nat) (srest sch : Bytes) (p : Int) (w : Bool) (e : Bytes × Bytes × Int),
    e ∈ entriesKids (insertKids K label (label :: srest) sch p w) → e ∈ entriesKids K ∨ e = (label :: srest, sch, code p w)

theorem insertChild_store (c : Node) (ih : StoreSpec c) (s sch : Bytes) (p : Int) (w : Bool) (e : Bytes × Bytes × Int)
    (he : e ∈ childEntries (insertChild c s sch p w)) : e ∈ childEntries c ∨ e = (s, sch, code p w) := by
  cases c with
  | mk csuf cS cK =>
    rw [insertChild] at he
    obtain ⟨hs, hcs, _⟩ := splitCommon_spec s csuf
    cases hsp : splitCommon s csuf with
    | mk restS r2 =>
      obtain ⟨restC, common⟩ := r2
      rw [hsp] at hs hcs he
      simp only [] at hs hcs he
      cases restC with
      | nil =>
        simp only [List.append_nil] at hcs
        simp only [] at he
        unfold childEntries at he ⊢
        rw [insert_suf] at he
        simp only [List.mem_map, Node.suf] at he ⊢
        obtain ⟨e', he', rfl⟩ := he
        rcases ih restS sch p w e' he' with h | h
        · exact Or.inl ⟨e', h, rfl⟩
        · right; subst h; simp only []; rw [hcs, ← hs]
      | cons l1 rc =>
        cases restS with
        | nil =>
          simp only [List.append_nil] at hs
          unfold childEntries at he ⊢
          simp only [Node.suf] at he ⊢
          rw [entries_mk, entriesKids_cons', entriesKids_nil, List.append_nil] at he
          simp only [List.map_append, List.mem_append, List.mem_map] at he
          rcases he with ⟨e', ⟨x, hx, rfl⟩, rfl⟩ | ⟨e', he', rfl⟩
          · right
            rcases own_addPort [] sch p w x hx with h | h
            · simp [own] at h
            · subst h; simp only [List.append_nil]; rw [hs]
          · left
            unfold childEntries at he'
            simp only [List.mem_map, Node.suf] at he'
            obtain ⟨e'', he'', rfl⟩ := he'
            rw [entries_suf_irrel (l1 :: rc) csuf] at he''
            simp only [List.mem_map]
            refine ⟨e'', he'', ?_⟩
            rw [hcs, List.append_assoc]
        | cons l2 rs =>
          unfold childEntries at he ⊢
          simp only [Node.suf] at he ⊢
          rw [entries_mk] at he
          simp only [own, List.flatMap_nil, List.map_nil, List.nil_append, List.mem_map] at he
          obtain ⟨e', he', rfl⟩ := he
          rcases upsert_entries l2 _ _ e' he' with h | h
          · left
            rw [entriesKids_cons', entriesKids_nil, List.append_nil] at h
            unfold childEntries at h
            simp only [List.mem_map, Node.suf] at h
            obtain ⟨e'', he'', rfl⟩ := h
            rw [entries_suf_irrel (l1 :: rc) csuf] at he''
            simp only [List.mem_map]
            refine ⟨e'', he'', ?_⟩
            rw [hcs, List.append_assoc]
          · right
            have := leaf_entries _ _ _ _ _ h
            subst this
            simp only []
            rw [hs]

mutual
theorem store_spec : (n : Node) → StoreSpec n
  | .mk suf S K => by
    intro s sch p w e he
    cases s with
    | nil =>
      rw [insert] at he
      rw [entries_mk] at he ⊢
      simp only [List.mem_append, List.mem_map] at he ⊢
      rcases he with ⟨x, hx, rfl⟩ | he
      · rcases own_addPort S sch p w x hx with h | h
        · exact Or.inl (Or.inl ⟨x, h, rfl⟩)
        · subst h; exact Or.inr rfl
      · exact Or.inl (Or.inr he)
    | cons label srest =>
      rw [insert] at he
      split at he
      · exact Or.inl he
      · rw [entries_mk] at he ⊢
        simp only [List.mem_append] at he ⊢
        rcases he with he | he
        · exact Or.inl (Or.inl he)
        · rcases store_kids_spec K label srest sch p w e he with h | h
          · exact Or.inl (Or.inr h)
          · exact Or.inr h

theorem store_kids_spec : (K : List (Nat × Node)) → StoreKidsSpec K
  | [] => by
    intro label srest sch p w e he
    rw [insertKids, entriesKids_cons', entriesKids_nil, List.append_nil] at he
    exact Or.inr (leaf_entries _ _ _ _ _ he)
  | (l, c) :: rest => by
    intro label srest sch p w e he
    rw [insertKids] at he
    split at he
    · rw [entriesKids_cons'] at he
      rcases List.mem_append.mp he with h | h
      · exact Or.inr (leaf_entries _ _ _ _ _ h)
      · exact Or.inl h
    · split at he
      · rw [entriesKids_cons'] at he ⊢
        rcases List.mem_append.mp he with h | h
        · rcases insertChild_store c (store_spec c) _ sch p w e h with h' | h'
          · exact Or.inl (List.mem_append_left _ h')
          · exact Or.inr h'
        · exact Or.inl (List.mem_append_right _ h)
      · rw [entriesKids_cons'] at he ⊢
        rcases List.mem_append.mp he with h | h
        · exact Or.inl (List.mem_append_left _ h)
        · rcases store_kids_spec rest label srest sch p w e h with h' | h'
          · exact Or.inl (List.mem_append_right _ h')
          · exact Or.inr h'
end

/-! ### `elems` renders the stored entries -/

def ElemsSpec (n : Node) : Prop :=
  ∀ acc : Bytes, elems n acc = (entries n).map (fun e => renderEntry e.2.1 ((n.suf ++ e.1).reverse ++ acc) e.2.2)

def ElemsKidsSpec (K : List (Nat × Node)) : Prop :=
  ∀ host : Bytes, elemsKids K host = (entriesKids K).map (fun e => renderEntry e.2.1 (e.1.reverse ++ host) e.2.2)

theorem own_render (S : List (Bytes × List Int)) (host : Bytes) :
    (S.flatMap fun x => x.2.map (renderEntry x.1 host)) = (own S).map (fun e => renderEntry e.1 host e.2) := by
  induction S with
  | nil => rfl
  | cons x rest ih =>
    rw [own_cons, List.flatMap_cons, ih, List.map_append, List.map_map]
    rfl

mutual
theorem elems_spec : (n : Node) → ElemsSpec n
  | .mk suf S K => by
    intro acc
    rw [elems, entries_mk, List.map_append, List.map_map, elems_kids_spec K (suf.reverse ++ acc)]
    simp only [Node.suf]
    congr 1
    · have := own_render S (suf.reverse ++ acc)
      rw [show (fun (x : Bytes × List Int) => match x with | (scheme, ports) => List.map (renderEntry scheme (suf.reverse ++ acc)) ports)
          = (fun x => x.2.map (renderEntry x.1 (suf.reverse ++ acc))) from by funext x; rfl]
      rw [this]
      apply List.map_congr_left
      intro e _
      simp [Function.comp]
    · apply List.map_congr_left
      intro e _
      simp [List.reverse_append]

theorem elems_kids_spec : (K : List (Nat × Node)) → ElemsKidsSpec K
  | [] => by intro host; rw [elemsKids, entriesKids_nil]; rfl
  | (l, c) :: rest => by
    intro host
    rw [elemsKids, entriesKids_cons, List.map_append, List.map_map, elems_spec c host, elems_kids_spec rest host]
    congr 1
end

theorem sortBy_mem (l : List Bytes) (x : Bytes) : x ∈ sortBy Bytes.lt l ↔ x ∈ l := by
  unfold sortBy
  induction l with
  | nil => simp
  | cons a t ih =>
    simp only [List.foldr_cons, List.mem_cons]
    rw [insertSorted_mem_gen, ih]
where
  insertSorted_mem_gen {a : Bytes} {l : List Bytes} {x : Bytes} : x ∈ insertSorted Bytes.lt a l ↔ x = a ∨ x ∈ l := by
    induction l with
    | nil => simp [insertSorted]
    | cons y ys ih =>
      simp only [insertSorted]
      split
      · simp
      · simp only [List.mem_cons, ih]
        constructor
        · rintro (h | h | h)
          · exact Or.inr (Or.inl h)
          · exact Or.inl h
          · exact Or.inr (Or.inr h)
        · rintro (h | h | h)
          · exact Or.inr (Or.inl h)
          · exact Or.inl h
          · exact Or.inr (Or.inr h)

/-- **`Tree.Elems` is the rendering of the stored entries** (as a set). -/
theorem tree_elems_mem (t : Tree) (ht : t.suf = []) (x : Bytes) :
    x ∈ Tree.elems t ↔ ∃ e ∈ entries t, x = renderEntry e.2.1 e.1.reverse e.2.2 := by
  unfold Tree.elems
  rw [sortBy_mem, elems_spec t []]
  simp only [List.mem_map, ht, List.nil_append, List.append_nil]
  constructor
  · rintro ⟨e, he, rfl⟩; exact ⟨e, he, rfl⟩
  · rintro ⟨e, he, rfl⟩; exact ⟨e, he, rfl⟩

end Node
end Cors
