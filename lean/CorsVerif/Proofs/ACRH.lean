import CorsVerif.Spec.ACRH
import CorsVerif.Proofs.Order
/-
  Lemmas for C14: trimming, the windowed comma cut, positions in the sorted set.
-/
namespace Cors
open Gen Headers

namespace ACRH

/-! ### Trimming -/

local notation "D" => Spec.dropOneOWS

theorem D_nil : D [] = [] := rfl
theorem D_cons_ows {b : Nat} (t : Bytes) (h : isOWS b = true) : D (b :: t) = t := by simp [Spec.dropOneOWS, h]
theorem D_cons_not {b : Nat} (t : Bytes) (h : isOWS b = false) : D (b :: t) = b :: t := by simp [Spec.dropOneOWS, h]

/-- Closed form of `trimLeftOWS s 1`. -/
theorem trimLeft_one (s : Bytes) :
    trimLeftAux 1 s 0 =
      if (D s).head?.any isOWS then (if (D s).length = 1 then some [] else none) else some (D s) := by
  cases s with
  | nil => simp [trimLeftAux, Spec.dropOneOWS]
  | cons b t =>
    by_cases hb : isOWS b = true
    · cases t with
      | nil => simp [trimLeftAux, Spec.dropOneOWS, hb]
      | cons c u =>
        by_cases hc : isOWS c = true
        · cases u with
          | nil => simp [trimLeftAux, Spec.dropOneOWS, hb, hc]
          | cons d v => simp [trimLeftAux, Spec.dropOneOWS, hb, hc]
        · simp [trimLeftAux, Spec.dropOneOWS, hb, hc]
    · simp [trimLeftAux, Spec.dropOneOWS, hb]

theorem D_getLast (s : Bytes) (h : D s ≠ []) : (D s).getLast? = s.getLast? := by
  cases s with
  | nil => exact absurd D_nil h
  | cons b t =>
    cases hb : isOWS b with
    | true =>
      rw [D_cons_ows t hb] at h ⊢
      cases t with
      | nil => exact absurd rfl h
      | cons c u => simp [List.getLast?_cons_cons]
    | false => rw [D_cons_not t hb]

/-- **Trimming.** `TrimOWS(e, 1)` is the specification's reading of one list element. -/
theorem trimOWS_eq_elem (e : Bytes) : trimOWS e Facts.headers_MaxOWSBytes = Spec.elem e := by
  have hn : Facts.headers_MaxOWSBytes = 1 := rfl
  rw [hn]
  unfold trimOWS trimRightOWS trimLeftOWS Spec.elem
  cases he : e.isEmpty with
  | true =>
    have : e = [] := List.isEmpty_iff.mp he
    subst this
    simp [D_nil]
  | false =>
    simp only [Bool.false_eq_true, if_false]
    rw [trimLeft_one e.reverse]
    by_cases h1 : (D e.reverse).head?.any isOWS = true
    · rw [if_pos h1]
      by_cases h2 : (D e.reverse).length = 1
      · -- B1
        rw [if_pos h2]
        obtain ⟨c, hc⟩ : ∃ c, D e.reverse = [c] := by
          cases hd : D e.reverse with
          | nil => simp [hd] at h2
          | cons c u =>
            cases u with
            | nil => exact ⟨c, rfl⟩
            | cons _ _ => simp [hd] at h2
        have hcO : isOWS c = true := by simpa [hc] using h1
        rw [hc]
        simp [trimLeftAux, D_cons_ows [] hcO, D_nil]
      · -- B2
        rw [if_neg h2]
        simp only [Option.map_none]
        obtain ⟨c, u, hcu, hu⟩ : ∃ c u, D e.reverse = c :: u ∧ u ≠ [] := by
          cases hd : D e.reverse with
          | nil => simp [hd] at h1
          | cons c u =>
            refine ⟨c, u, rfl, ?_⟩
            intro hu; subst hu; simp [hd] at h2
        have hcO : isOWS c = true := by simpa [hcu] using h1
        have hne : D (D e.reverse).reverse ≠ [] := by
          rw [hcu]
          simp only [List.reverse_cons]
          cases hur : u.reverse with
          | nil => simp at hur; exact absurd hur hu
          | cons x xs =>
            simp only [List.cons_append]
            cases hx : isOWS x with
            | true => rw [D_cons_ows _ hx]; cases xs <;> simp
            | false => rw [D_cons_not _ hx]; simp
        have hlast : (D (D e.reverse).reverse).getLast? = some c := by
          rw [D_getLast _ hne, hcu]
          simp
        simp [hlast, hcO]
    · rw [if_neg h1]
      simp only [Option.map_some]
      rw [trimLeft_one]
      have h1' : (D e.reverse).head?.any isOWS = false := by simpa using h1
      -- the last byte of d2 is not OWS
      have hlast : (D (D e.reverse).reverse).getLast?.any isOWS = false := by
        by_cases hne : D (D e.reverse).reverse = []
        · rw [hne]; rfl
        · rw [D_getLast _ hne, List.getLast?_reverse]; exact h1'
      by_cases h3 : (D (D e.reverse).reverse).head?.any isOWS = true
      · rw [if_pos h3]
        have : (D (D e.reverse).reverse).length ≠ 1 := by
          intro hl
          obtain ⟨c, hc⟩ : ∃ c, D (D e.reverse).reverse = [c] := by
            cases hd : D (D e.reverse).reverse with
            | nil => simp [hd] at hl
            | cons c u =>
              cases u with
              | nil => exact ⟨c, rfl⟩
              | cons _ _ => simp [hd] at hl
          rw [hc] at h3 hlast
          simp at h3 hlast
          rw [h3] at hlast
          cases hlast
        rw [if_neg this]
        simp [h3]
      · rw [if_neg h3]
        have h3' : (D (D e.reverse).reverse).head?.any isOWS = false := by simpa using h3
        simp [h3', hlast]

/-! ### Cutting at the first comma -/

theorem cutAt_none_iff {c : Nat} {l : Bytes} : Bytes.cutAt c l = none ↔ c ∉ l := by
  induction l with
  | nil => simp [Bytes.cutAt]
  | cons a as ih =>
    simp only [Bytes.cutAt]
    by_cases h : a = c
    · subst h; simp
    · have h' : ¬ c = a := fun hh => h hh.symm
      simp only [beq_iff_eq, h, if_false, List.mem_cons, h', false_or]
      cases hc : Bytes.cutAt c as with
      | none => simp [← ih, hc]
      | some p => simp [← ih, hc]

theorem cutAt_some {c : Nat} {l e rest : Bytes} (h : Bytes.cutAt c l = some (e, rest)) :
    l = e ++ c :: rest ∧ c ∉ e := by
  induction l generalizing e rest with
  | nil => simp [Bytes.cutAt] at h
  | cons a as ih =>
    simp only [Bytes.cutAt] at h
    by_cases hac : a = c
    · subst hac
      simp at h
      obtain ⟨rfl, rfl⟩ := h
      simp
    · simp only [beq_iff_eq, hac, if_false] at h
      cases hc : Bytes.cutAt c as with
      | none => simp [hc] at h
      | some p =>
        obtain ⟨l', r'⟩ := p
        simp only [hc, Option.some.injEq, Prod.mk.injEq] at h
        obtain ⟨rfl, rfl⟩ := h
        obtain ⟨h1, h2⟩ := ih hc
        refine ⟨by rw [h1]; simp, ?_⟩
        simp only [List.mem_cons, not_or]
        exact ⟨fun hh => hac hh.symm, h2⟩

theorem cutAt_append {c : Nat} {e rest : Bytes} (h : c ∉ e) : Bytes.cutAt c (e ++ c :: rest) = some (e, rest) := by
  induction e with
  | nil => simp [Bytes.cutAt]
  | cons a as ih =>
    simp only [List.mem_cons, not_or] at h
    have hac : ¬ a = c := fun hh => h.1 hh.symm
    simp [Bytes.cutAt, hac, ih h.2]

theorem splitOn_no_comma {c : Nat} {l : Bytes} (h : c ∉ l) : Bytes.splitOn c l = [l] := by
  induction l with
  | nil => rfl
  | cons a as ih =>
    simp only [List.mem_cons, not_or] at h
    have hac : ¬ a = c := fun hh => h.1 hh.symm
    simp [Bytes.splitOn, hac, ih h.2]

theorem splitOn_append {c : Nat} {e rest : Bytes} (h : c ∉ e) :
    Bytes.splitOn c (e ++ c :: rest) = e :: Bytes.splitOn c rest := by
  induction e with
  | nil => simp [Bytes.splitOn]
  | cons a as ih =>
    simp only [List.mem_cons, not_or] at h
    have hac : ¬ a = c := fun hh => h.1 hh.symm
    simp [Bytes.splitOn, hac, ih h.2]

/-- `cutAtComma` when the first comma lies inside the window. -/
theorem cutAtComma_in {e rest : Bytes} {n : Nat} (h : comma ∉ e) (hn : e.length < n) :
    cutAtComma (e ++ comma :: rest) n = (e, rest, true) := by
  unfold cutAtComma
  have : (e ++ comma :: rest).take n = e ++ comma :: rest.take (n - e.length - 1) := by
    rw [List.take_append]
    have h1 : List.take n e = e := List.take_of_length_le (Nat.le_of_lt hn)
    obtain ⟨k, hk⟩ : ∃ k, n - e.length = k + 1 := ⟨n - e.length - 1, by omega⟩
    have hk' : n - e.length - 1 = k := by omega
    rw [h1, hk, List.take_succ_cons]
    simp
  rw [this, cutAt_append h]
  simp

/-- `cutAtComma` when there is no comma inside the window. -/
theorem cutAtComma_out {l : Bytes} {n : Nat} (h : comma ∉ l.take n) : cutAtComma l n = (l, [], false) := by
  unfold cutAtComma
  rw [cutAt_none_iff.mpr h]

/-! ### One element -/

/-- What `Check` does with one list element, given the state between elements. -/
def stepElem (set : SortedSet) (st : CkState) (e : Bytes) : Option CkState :=
  match Spec.elem e with
  | none => none
  | some name =>
    if name.isEmpty then
      if st.empties + 1 > Facts.headers_MaxEmptyElements then none else some { st with empties := st.empties + 1 }
    else
      match set.indexAfter st.start name with
      | none => none
      | some i => some { st with start := i + 1 }

def foldElems (set : SortedSet) : List Bytes → CkState → Option CkState
  | [], st => some st
  | e :: es, st =>
    match stepElem set st e with
    | none => none
    | some st' => foldElems set es st'

theorem foldElems_append (set : SortedSet) (xs ys : List Bytes) (st : CkState) :
    foldElems set (xs ++ ys) st =
      match foldElems set xs st with
      | none => none
      | some st' => foldElems set ys st' := by
  induction xs generalizing st with
  | nil => rfl
  | cons x xs ih =>
    simp only [List.cons_append, foldElems]
    cases stepElem set st x with
    | none => rfl
    | some st' => exact ih st'

theorem D_length (s : Bytes) : s.length ≤ (D s).length + 1 := by
  cases s with
  | nil => simp [D_nil]
  | cons b t =>
    cases hb : isOWS b with
    | true => rw [D_cons_ows t hb]; simp
    | false => rw [D_cons_not t hb]; simp

/-- Trimming removes at most two bytes. -/
theorem elem_length {e name : Bytes} (h : Spec.elem e = some name) : e.length ≤ name.length + 2 := by
  unfold Spec.elem at h
  simp only [] at h
  split at h
  · cases h
  · cases h
    have h1 := D_length e.reverse
    have h2 := D_length (D e.reverse).reverse
    simp only [List.length_reverse] at h1 h2
    omega

/-- An element longer than every allowed name plus padding is rejected. -/
theorem stepElem_long (set : SortedSet) (st : CkState) (e : Bytes) (h : set.maxLen + 3 ≤ e.length) :
    stepElem set st e = none := by
  unfold stepElem
  cases he : Spec.elem e with
  | none => rfl
  | some name =>
    have hl := elem_length he
    have hne : name.isEmpty = false := by
      cases name with
      | nil => simp at hl; omega
      | cons _ _ => rfl
    simp only [hne, Bool.false_eq_true, if_false]
    have : set.indexAfter st.start name = none := by
      unfold SortedSet.indexAfter
      rw [if_pos (by omega)]
    rw [this]

/-! ### One field line -/

/-- One iteration of the inner loop of `Check`, phrased with `stepElem`. -/
theorem checkLine_unfold (set : SortedSet) (maxLen fuel : Nat) (acrh : Bytes) (st : CkState) :
    checkLine set maxLen (fuel + 1) acrh st =
      match stepElem set st (cutAtComma acrh maxLen).1 with
      | none => none
      | some st' =>
        if (cutAtComma acrh maxLen).2.2 then checkLine set maxLen fuel (cutAtComma acrh maxLen).2.1 st' else some st' := by
  rw [checkLine]
  obtain ⟨name, rest, found⟩ := cutAtComma acrh maxLen
  simp only [trimOWS_eq_elem, stepElem]
  cases Spec.elem name with
  | none => rfl
  | some nm =>
    simp only []
    cases hne : nm.isEmpty with
    | true =>
      simp only [if_true]
      split
      · rfl
      · cases found <;> simp
    | false =>
      simp only [Bool.false_eq_true, if_false]
      cases set.indexAfter st.start nm with
      | none => rfl
      | some i => cases found <;> simp

theorem take_subset_not_mem {c : Nat} {l : Bytes} (n : Nat) (h : c ∉ l) : c ∉ l.take n :=
  fun hc => h (List.mem_of_mem_take hc)

/-- **One line.** The windowed scan of one field line is the element-wise fold over its
comma-separated elements (the window is `maxLen + 3`: longest allowed name, padding, comma). -/
theorem checkLine_eq (set : SortedSet) (fuel : Nat) (l : Bytes) (st : CkState) (hf : l.length < fuel) :
    checkLine set (set.maxLen + 3) fuel l st = foldElems set (Bytes.splitOn comma l) st := by
  induction fuel generalizing l st with
  | zero => omega
  | succ fuel ih =>
    rw [checkLine_unfold]
    cases hc : Bytes.cutAt comma l with
    | none =>
      have hno : comma ∉ l := cutAt_none_iff.mp hc
      rw [cutAtComma_out (take_subset_not_mem _ hno), splitOn_no_comma hno]
      simp only [foldElems]
      cases stepElem set st l <;> simp
    | some p =>
      obtain ⟨e, rest⟩ := p
      obtain ⟨hl, hno⟩ := cutAt_some hc
      subst hl
      rw [splitOn_append hno]
      simp only [foldElems]
      by_cases hlen : e.length < set.maxLen + 3
      · rw [cutAtComma_in hno hlen]
        simp only []
        cases stepElem set st e with
        | none => rfl
        | some st' =>
          simp only [if_true]
          apply ih
          simp only [List.length_append, List.length_cons] at hf
          omega
      · -- no comma inside the window: the whole rest of the line is taken for one (too long) element
        have hwin : comma ∉ (e ++ comma :: rest).take (set.maxLen + 3) := by
          rw [List.take_append_of_le_length (by omega)]
          exact take_subset_not_mem _ hno
        rw [cutAtComma_out hwin]
        simp only []
        rw [stepElem_long set st e (by omega)]
        rw [stepElem_long set st (e ++ comma :: rest) (by simp only [List.length_append, List.length_cons]; omega)]

/-! ### All field lines -/

theorem checkLines_eq (set : SortedSet) (lines : List Bytes) (st : CkState) :
    checkLines set (set.maxLen + 3) lines st = (foldElems set (Spec.elements lines) st).isSome := by
  induction lines generalizing st with
  | nil => simp [checkLines, Spec.elements, foldElems]
  | cons l ls ih =>
    simp only [checkLines, Spec.elements, List.flatMap_cons]
    rw [checkLine_eq set _ l st (Nat.lt_succ_self _), foldElems_append]
    cases foldElems set (Bytes.splitOn comma l) st with
    | none => rfl
    | some st' => exact ih st'

/-- `headers.Check` is the element-wise fold from the initial state. -/
theorem check_eq_fold (set : SortedSet) (lines : List Bytes) :
    Headers.check set lines = (foldElems set (Spec.elements lines) { start := 0, empties := 0 }).isSome := by
  unfold Headers.check
  have : Facts.headers_MaxOWSBytes + set.maxLen + Facts.headers_MaxOWSBytes + 1 = set.maxLen + 3 := by
    simp only [Facts.headers_MaxOWSBytes]; omega
  simp only [this]
  exact checkLines_eq set lines _

/-! ### From positions in the sorted set to "allowed names in strictly increasing order" -/

theorem findIdx_none {e : Bytes} {l : List Bytes} : SortedSet.findIdx e l = none ↔ e ∉ l := by
  induction l with
  | nil => simp [SortedSet.findIdx]
  | cons x xs ih =>
    simp only [SortedSet.findIdx]
    by_cases hx : x = e
    · subst hx; simp
    · have : ¬ e = x := fun h => hx h.symm
      simp [hx, this, ih]

theorem findIdx_some {e : Bytes} {l : List Bytes} {j : Nat} (h : SortedSet.findIdx e l = some j) :
    ∃ pre post, l = pre ++ e :: post ∧ pre.length = j ∧ l.drop (j + 1) = post := by
  induction l generalizing j with
  | nil => simp [SortedSet.findIdx] at h
  | cons x xs ih =>
    simp only [SortedSet.findIdx] at h
    by_cases hx : x = e
    · subst hx
      simp at h
      subst h
      exact ⟨[], xs, rfl, rfl, rfl⟩
    · simp only [beq_iff_eq, hx, if_false] at h
      cases hf : SortedSet.findIdx e xs with
      | none => simp [hf] at h
      | some k =>
        simp only [hf, Option.map_some, Option.some.injEq] at h
        subst h
        obtain ⟨pre, post, h1, h2, h3⟩ := ih hf
        exact ⟨x :: pre, post, by rw [h1]; rfl, by simp [h2], by simpa using h3⟩

/-- Under the invariant of `SortedSet`, the length shortcut of `IndexAfter` changes nothing. -/
theorem indexAfter_eq (set : SortedSet) (h : set.WF) (start : Nat) (e : Bytes) :
    set.indexAfter start e = (SortedSet.findIdx e (set.elems.drop start)).map (· + start) := by
  unfold SortedSet.indexAfter
  split
  · rename_i hlen
    have : e ∉ set.elems.drop start := by
      intro hm
      have := h.bound e (List.mem_of_mem_drop hm)
      omega
    rw [findIdx_none.mpr this]; rfl
  · rfl

/-- The positions form a chain: each name is found after the previous one. -/
def chain : List Bytes → List Bytes → Bool
  | _, [] => true
  | E, n :: rest =>
    match SortedSet.findIdx n E with
    | none => false
    | some j => chain (E.drop (j + 1)) rest

theorem si_head_lt {n : Bytes} {rest : List Bytes} (h : Spec.strictlyIncreasing (n :: rest) = true) :
    ∀ x ∈ rest, Bytes.lt n x = true := by
  induction rest generalizing n with
  | nil => intro x hx; cases hx
  | cons r rs ih =>
    simp only [Spec.strictlyIncreasing, Bool.and_eq_true] at h
    intro x hx
    rcases List.mem_cons.mp hx with rfl | hx
    · exact h.1
    · exact Bytes.lt_trans h.1 (ih h.2 x hx)

theorem si_tail {n : Bytes} {rest : List Bytes} (h : Spec.strictlyIncreasing (n :: rest) = true) :
    Spec.strictlyIncreasing rest = true := by
  cases rest with
  | nil => rfl
  | cons r rs => simp only [Spec.strictlyIncreasing, Bool.and_eq_true] at h; exact h.2

/-- **Positions vs names.** In a strictly sorted list, a chain of positions is the same as:
all names are members, and the names are strictly increasing. -/
theorem chain_iff (E : List Bytes) (hE : StrictSorted E) (ns : List Bytes) :
    chain E ns = (ns.all (fun n => E.contains n) && Spec.strictlyIncreasing ns) := by
  induction ns generalizing E with
  | nil => rfl
  | cons n rest ih =>
    simp only [chain, List.all_cons]
    cases hf : SortedSet.findIdx n E with
    | none =>
      have : E.contains n = false := by simpa using findIdx_none.mp hf
      rw [this]; rfl
    | some j =>
      obtain ⟨pre, post, hE', hj, hdrop⟩ := findIdx_some hf
      have hmem : E.contains n = true := by rw [hE']; simp
      simp only [hmem, Bool.true_and]
      rw [hdrop]
      have hsorted : StrictSorted (pre ++ n :: post) := hE' ▸ hE
      unfold StrictSorted at hsorted
      rw [List.pairwise_append] at hsorted
      obtain ⟨hpre, hpost, hcross⟩ := hsorted
      rw [List.pairwise_cons] at hpost
      rw [ih post hpost.2]
      -- both directions
      cases hlhs : (rest.all (fun n => post.contains n) && Spec.strictlyIncreasing rest) with
      | true =>
        simp only [Bool.and_eq_true, List.all_eq_true] at hlhs
        symm
        simp only [Bool.and_eq_true, List.all_eq_true]
        refine ⟨fun x hx => ?_, ?_⟩
        · have := hlhs.1 x hx
          rw [hE']
          simp only [List.contains_iff_mem, List.mem_append, List.mem_cons] at this ⊢
          exact Or.inr (Or.inr this)
        · cases rest with
          | nil => rfl
          | cons r rs =>
            simp only [Spec.strictlyIncreasing, Bool.and_eq_true]
            refine ⟨?_, hlhs.2⟩
            have hr := hlhs.1 r List.mem_cons_self
            simp only [List.contains_iff_mem] at hr
            exact hpost.1 r hr
      | false =>
        symm
        cases hrhs : (rest.all (fun n => E.contains n) && Spec.strictlyIncreasing (n :: rest)) with
        | false => rfl
        | true =>
          exfalso
          simp only [Bool.and_eq_true, List.all_eq_true] at hrhs
          have hlt := si_head_lt hrhs.2
          have hsi := si_tail hrhs.2
          have hall : rest.all (fun n => post.contains n) = true := by
            simp only [List.all_eq_true]
            intro x hx
            have hxE := hrhs.1 x hx
            rw [hE'] at hxE
            simp only [List.contains_iff_mem, List.mem_append, List.mem_cons] at hxE ⊢
            rcases hxE with hp | rfl | hp
            · -- x before n contradicts n < x
              have h1 := hcross x hp n List.mem_cons_self
              have h2 := hlt x hx
              rw [Bytes.lt_asymm h1] at h2
              cases h2
            · have h2 := hlt x hx
              rw [Bytes.lt_irrefl] at h2
              cases h2
            · exact hp
          rw [hall, hsi] at hlhs
          cases hlhs

theorem strictSorted_drop {l : List Bytes} (h : StrictSorted l) (k : Nat) : StrictSorted (l.drop k) :=
  List.Pairwise.sublist (List.drop_sublist k l) h

/-- The element-wise fold in terms of names, empty-element budget and position chain. -/
theorem foldElems_iff (set : SortedSet) (hwf : set.WF) (es : List Bytes) (st : CkState)
    (hst : st.empties ≤ Facts.headers_MaxEmptyElements) :
    (foldElems set es st).isSome =
      match Spec.names es with
      | none => false
      | some ns =>
        decide (st.empties + (ns.filter (fun n => n.isEmpty)).length ≤ Facts.headers_MaxEmptyElements)
        && chain (set.elems.drop st.start) (ns.filter (fun n => !n.isEmpty)) := by
  induction es generalizing st with
  | nil => simp [foldElems, Spec.names, chain, hst]
  | cons e es ih =>
    simp only [foldElems, Spec.names, stepElem]
    cases he : Spec.elem e with
    | none => rfl
    | some name =>
      simp only []
      cases hne : name.isEmpty with
      | true =>
        simp only [if_true]
        by_cases hover : st.empties + 1 > Facts.headers_MaxEmptyElements
        · rw [if_pos hover]
          cases Spec.names es with
          | none => rfl
          | some ns =>
            simp only [List.filter_cons, hne, if_true, List.length_cons, Option.isSome_none]
            have : ¬ (st.empties + ((ns.filter fun n => n.isEmpty).length + 1) ≤ Facts.headers_MaxEmptyElements) := by omega
            simp [this]
        · rw [if_neg hover]
          rw [ih _ (by simp only []; omega)]
          cases Spec.names es with
          | none => rfl
          | some ns =>
            simp only [List.filter_cons, hne, if_true, List.length_cons, Bool.not_true, Bool.false_eq_true, if_false]
            have : (st.empties + 1 + (ns.filter fun n => n.isEmpty).length ≤ Facts.headers_MaxEmptyElements) ↔
                (st.empties + ((ns.filter fun n => n.isEmpty).length + 1) ≤ Facts.headers_MaxEmptyElements) := by omega
            simp only [this]
      | false =>
        simp only [Bool.false_eq_true, if_false]
        rw [indexAfter_eq set hwf]
        cases hf : SortedSet.findIdx name (set.elems.drop st.start) with
        | none =>
          cases Spec.names es with
          | none => rfl
          | some ns => simp [List.filter_cons, hne, chain, hf]
        | some j =>
          simp only [Option.map_some]
          rw [ih { start := j + st.start + 1, empties := st.empties } hst]
          cases Spec.names es with
          | none => rfl
          | some ns =>
            simp only [List.filter_cons, hne, Bool.false_eq_true, if_false, Bool.not_false, if_true, chain, hf]
            have : set.elems.drop (j + st.start + 1) = (set.elems.drop st.start).drop (j + 1) := by
              rw [List.drop_drop]; congr 1; omega
            rw [this]

/-- Elements without whitespace are their own names. -/
theorem elem_plain (e : Bytes) (h : ∀ b ∈ e, isOWS b = false) : Spec.elem e = some e := by
  have hD : ∀ s : Bytes, (∀ b ∈ s, isOWS b = false) → Spec.dropOneOWS s = s := by
    intro s hs
    cases s with
    | nil => rfl
    | cons b t => simp [Spec.dropOneOWS, hs b List.mem_cons_self]
  unfold Spec.elem
  have h1 : Spec.dropOneOWS e.reverse = e.reverse := hD _ (fun b hb => h b (List.mem_reverse.mp hb))
  simp only [h1, List.reverse_reverse, hD e h]
  have hh : e.head?.any isOWS = false := by
    cases e with
    | nil => rfl
    | cons b t => simp [h b List.mem_cons_self]
  have hl : e.getLast?.any isOWS = false := by
    cases hg : e.getLast? with
    | none => rfl
    | some b => simp [h b (List.mem_of_getLast? hg)]
  simp [hh, hl]

theorem names_plain (es : List Bytes) (h : ∀ e ∈ es, ∀ b ∈ e, isOWS b = false) : Spec.names es = some es := by
  induction es with
  | nil => rfl
  | cons e es ih =>
    simp only [Spec.names, elem_plain e (h e List.mem_cons_self), ih (fun e' he' => h e' (List.mem_cons_of_mem _ he'))]


end ACRH
end Cors
