import CorsVerif.Model.IxTree
import CorsVerif.Proofs.IxRefine
/-
  Refinement of the list-level tree functions (`Node.insert`, `Node.addPort`, `Node.upsert`,
  `Node.deleteSameSign`, `Node.elems`) by their index-level transliterations (Model/IxTree.lean),
  run on the slice representation `conc n` of a list-level tree.
-/
namespace Cors
namespace Ix
open Gen Node

/-! ### `conc` as maps -/

theorem concKids_eq_map (K : List (Nat × Node)) : concKids K = K.map (fun e => conc e.2) := by
  induction K with
  | nil => simp [concKids]
  | cons x rest ih => obtain ⟨l, c⟩ := x; simp [concKids, ih]

theorem conc_mk (suf : Bytes) (S : List (Bytes × List Int)) (K : List (Nat × Node)) :
    conc (.mk suf S K) = .mk suf.reverse (K.map Prod.fst) (K.map (fun e => conc e.2)) (S.map Prod.fst) (S.map Prod.snd) := by
  rw [conc, concKids_eq_map]

/-! ### Generic slice helpers -/

theorem getD_eq_getElem {α : Type} (l : List α) (i : Nat) (d : α) (h : i < l.length) : l.getD i d = l[i] := by
  rw [List.getD_eq_getElem?_getD, List.getElem?_eq_getElem h]; rfl

theorem getD_map' {α β : Type} (f : α → β) (l : List α) (i : Nat) (d : α) (e : β) (h : i < l.length) :
    (l.map f).getD i e = f (l.getD i d) := by
  rw [getD_eq_getElem _ _ _ (by simpa using h), getD_eq_getElem _ _ _ h]; simp

theorem map_fst_set_self {α β : Type} (S : List (α × β)) (i : Nat) (h : i < S.length) :
    (S.map Prod.fst).set i (S[i]).1 = S.map Prod.fst := by
  have : (S[i]).1 = (S.map Prod.fst)[i]'(by simpa using h) := by simp
  rw [this, List.set_getElem_self]

theorem setG_ok {α : Type} (s : List α) (i : Nat) (v : α) (h : i < s.length) : setG s (i : Int) v = .ok (s.set i v) := by
  unfold setG lenG
  rw [if_pos (by omega)]
  simp

theorem sliceG_from {α : Type} (s : List α) (i : Nat) (h : i ≤ s.length) : sliceG s (i : Int) (lenG s) = .ok (s.drop i) := by
  unfold sliceG lenG
  rw [if_pos (by omega)]
  simp

theorem sliceG_to {α : Type} (s : List α) (i : Nat) (h : i ≤ s.length) : sliceG s 0 (i : Int) = .ok (s.take i) := by
  unfold sliceG lenG
  rw [if_pos (by omega)]
  simp

theorem lowerBound_le {α : Type} (lt : α → α → Bool) (x : α) (l : List α) : lowerBound lt x l ≤ l.length := by
  induction l with
  | nil => simp [lowerBound]
  | cons y ys ih =>
    simp only [lowerBound]
    split
    · simp; omega
    · simp

/-! ### `node.contains`, `deleteSameSign` -/

theorem nodeContainsI_refines (S : List (Bytes × List Int)) (scheme : Bytes) (port : Int) (wild : Bool) :
    nodeContainsI (S.map Prod.fst) (S.map Prod.snd) scheme port wild = .ok (containsPort S scheme port wild) :=
  nodeContains_refines S scheme port wild

theorem takeWhile_lowerBound (s : List Int) :
    s.takeWhile (· < 0) = s.take (lowerBound intLt 0 s) ∧ s.dropWhile (· < 0) = s.drop (lowerBound intLt 0 s) := by
  induction s with
  | nil => simp [lowerBound]
  | cons y ys ih =>
    simp only [lowerBound, intLt, List.takeWhile_cons, List.dropWhile_cons]
    by_cases hy : y < 0
    · simp [hy, ih.1, ih.2]
    · simp [hy]

/-- **Refinement.** `deleteSameSign`: `s[i:]` and `s[:i]` with the `i` of `slices.BinarySearch(s, 0)` are in range. -/
theorem deleteSameSignI_refines (s : List Int) (v : Int) : deleteSameSignI s v = .ok (Node.deleteSameSign s v) := by
  unfold deleteSameSignI Node.deleteSameSign
  have hle := lowerBound_le intLt 0 s
  obtain ⟨h1, h2⟩ := takeWhile_lowerBound s
  split
  · rw [sliceG_from s _ hle, h2]
  · rw [sliceG_to s _ hle, h1]

/-! ### `node.add` -/

/-- The scan of `addScheme` is `slices.BinarySearch` (lower bound, then equality) followed by `insert` resp. an update in place. -/
theorem addScheme_ix (scheme : Bytes) (c : Int) (w : Bool) : ∀ (S : List (Bytes × List Int)),
    (if (decide (lowerBound Bytes.lt scheme (S.map Prod.fst) < S.length) &&
          (S.map Prod.fst).getD (lowerBound Bytes.lt scheme (S.map Prod.fst)) default == scheme) = true then
      addScheme scheme c w S = S.set (lowerBound Bytes.lt scheme (S.map Prod.fst))
        ((S.getD (lowerBound Bytes.lt scheme (S.map Prod.fst)) default).1,
          insertSorted (fun a b => decide (a < b)) c
            (if w then deleteSameSign (S.getD (lowerBound Bytes.lt scheme (S.map Prod.fst)) default).2 c
             else (S.getD (lowerBound Bytes.lt scheme (S.map Prod.fst)) default).2))
    else addScheme scheme c w S = S.take (lowerBound Bytes.lt scheme (S.map Prod.fst)) ++ (scheme, [c]) ::
        S.drop (lowerBound Bytes.lt scheme (S.map Prod.fst))) := by
  intro S
  induction S with
  | nil => simp [lowerBound, addScheme]
  | cons x rest ih =>
    obtain ⟨s, ps⟩ := x
    simp only [List.map_cons, lowerBound, addScheme]
    by_cases hs : s = scheme
    · subst hs
      simp [Bytes.lt_irrefl]
    · have hne : (s == scheme) = false := by simpa using hs
      simp only [hne, Bool.false_eq_true, if_false]
      by_cases hlt : Bytes.lt scheme s = true
      · have : Bytes.lt s scheme = false := Bytes.lt_asymm hlt
        simp [hlt, this, hne]
      · have hsl : Bytes.lt s scheme = true := by
          rcases Bytes.lt_trichotomy scheme s with h | h | h
          · exact absurd h hlt
          · exact absurd h.symm hs
          · exact h
        simp only [hlt, Bool.false_eq_true, if_false, hsl, if_true, List.length_cons, List.getD_cons_succ,
          List.set_cons_succ, List.take_succ_cons, List.drop_succ_cons, List.cons_append]
        have hdec : decide (lowerBound Bytes.lt scheme (rest.map Prod.fst) + 1 < rest.length + 1) =
            decide (lowerBound Bytes.lt scheme (rest.map Prod.fst) < rest.length) := by
          simp
        rw [hdec]
        split
        · rename_i hf
          rw [if_pos hf] at ih
          rw [ih]
        · rename_i hf
          rw [if_neg hf] at ih
          rw [ih]

/-- **Refinement.** `node.add` on the parallel slices `n.schemes`, `n.ports`: `n.ports[i]`, `n.ports[i] = ports`,
the two `insert`s and `deleteSameSign` stay in range, and both slices keep the same length. -/
theorem addI_refines (S : List (Bytes × List Int)) (scheme : Bytes) (port : Int) (wild : Bool) :
    addI (S.map Prod.fst) (S.map Prod.snd) scheme port wild =
      .ok ((addPort S scheme port wild).map Prod.fst, (addPort S scheme port wild).map Prod.snd) := by
  unfold addI addPort
  simp only [bind, Except.bind]
  rw [nodeContainsI_refines]
  simp only []
  cases hc : containsPort S scheme (code port wild) wild with
  | true => simp [pure, Except.pure]
  | false =>
    simp only [Bool.false_eq_true, if_false, bsearch]
    have hle := lowerBound_le Bytes.lt scheme (S.map Prod.fst)
    have hix := addScheme_ix scheme (code port wild) (code port wild == wildCode wild) S
    simp only [List.length_map] at hle ⊢
    generalize hi : lowerBound Bytes.lt scheme (S.map Prod.fst) = i at hle hix ⊢
    by_cases hf : (decide (i < S.length) && (S.map Prod.fst).getD i default == scheme) = true
    · rw [if_pos hf] at hix
      have hlt : i < S.length := by
        simp only [Bool.and_eq_true, decide_eq_true_eq] at hf; exact hf.1
      simp only [hf, Bool.not_true, Bool.false_eq_true, if_false]
      rw [idxG_ok _ i (by simpa using hlt)]
      simp only []
      have hget : (S.map Prod.snd).getD i default = (S.getD i default).2 := getD_map' Prod.snd S i default default hlt
      rw [hget, hix]
      by_cases hw : (code port wild == wildCode wild) = true
      · simp only [hw, if_true]
        rw [deleteSameSignI_refines]
        simp only []
        rw [setG_ok _ i _ (by simpa using hlt)]
        simp only [pure, Except.pure, List.map_set]
        congr 2
        rw [getD_eq_getElem S i default hlt]
        exact (map_fst_set_self S i hlt).symm
      · simp only [hw, Bool.false_eq_true, if_false]
        simp only [pure, Except.pure]
        rw [setG_ok _ i _ (by simpa using hlt)]
        simp only [List.map_set]
        congr 2
        rw [getD_eq_getElem S i default hlt]
        exact (map_fst_set_self S i hlt).symm
    · rw [if_neg hf] at hix
      have hf' : (decide (i < S.length) && (S.map Prod.fst).getD i default == scheme) = false := by
        simpa using hf
      simp only [hf', Bool.not_false, if_true]
      rw [insertG_refines _ i (by simpa using hle), insertG_refines _ i (by simpa using hle)]
      simp only [pure, Except.pure, hix]
      simp [List.map_take, List.map_drop]

/-! ### `node.upsertEdge`, the edge search of `Tree.Insert` -/

/-- `found` of `slices.BinarySearch(n.edges, label)`. -/
def edgeFound (label : Nat) (K : List (Nat × Node)) : Bool :=
  decide (lowerBound natLt label (K.map Prod.fst) < K.length) &&
    (K.map Prod.fst).getD (lowerBound natLt label (K.map Prod.fst)) default == label

theorem edgeFound_lt {label : Nat} {K : List (Nat × Node)} (h : edgeFound label K = true) :
    lowerBound natLt label (K.map Prod.fst) < K.length := by
  unfold edgeFound at h
  simp only [Bool.and_eq_true, decide_eq_true_eq] at h; exact h.1

theorem edgeFound_cons_skip (label l : Nat) (c : Node) (rest : List (Nat × Node)) (h : l < label) :
    edgeFound label ((l, c) :: rest) = edgeFound label rest := by
  unfold edgeFound
  simp [lowerBound, natLt, h]

/-- The scan of `upsert` is `slices.BinarySearch` followed by `insert` resp. `n.children[i] = child`. -/
theorem upsert_ix (label : Nat) (child : Node) : ∀ (K : List (Nat × Node)),
    upsert label child K =
      if edgeFound label K = true then K.set (lowerBound natLt label (K.map Prod.fst)) (label, child)
      else K.take (lowerBound natLt label (K.map Prod.fst)) ++ (label, child) :: K.drop (lowerBound natLt label (K.map Prod.fst)) := by
  intro K
  induction K with
  | nil => simp [upsert, edgeFound, lowerBound]
  | cons x rest ih =>
    obtain ⟨l, c⟩ := x
    simp only [upsert]
    by_cases h1 : label < l
    · have : ¬ l < label := by omega
      have hne : ¬ l = label := by omega
      simp [h1, edgeFound, lowerBound, natLt, this, hne]
    · by_cases h2 : label = l
      · subst h2
        simp [edgeFound, lowerBound, natLt]
      · have h3 : l < label := by omega
        have hbeq : (label == l) = false := by simpa using h2
        rw [if_neg h1, hbeq, edgeFound_cons_skip label l c rest h3, ih]
        simp only [Bool.false_eq_true, if_false, List.map_cons, lowerBound, natLt, h3, decide_true, if_true]
        split <;> simp

/-- The scan of `insertKids` is `slices.BinarySearch`: no edge — a fresh leaf goes in through `upsertEdge`;
an edge — the child at that position is worked on. -/
theorem insertKids_ix (label : Nat) (s scheme : Bytes) (port : Int) (wild : Bool) : ∀ (K : List (Nat × Node)),
    insertKids K label s scheme port wild =
      if edgeFound label K = true then
        K.set (lowerBound natLt label (K.map Prod.fst))
          (label, insertChild (K.getD (lowerBound natLt label (K.map Prod.fst)) default).2 s scheme port wild)
      else upsert label (leaf s scheme port wild) K := by
  intro K
  induction K with
  | nil => simp [insertKids, edgeFound, lowerBound, upsert]
  | cons x rest ih =>
    obtain ⟨l, c⟩ := x
    rw [insertKids]
    by_cases h1 : label < l
    · have : ¬ l < label := by omega
      have hne : ¬ l = label := by omega
      simp [h1, edgeFound, lowerBound, natLt, this, hne, upsert]
    · by_cases h2 : label = l
      · subst h2
        simp [edgeFound, lowerBound, natLt]
      · have h3 : l < label := by omega
        have hbeq : (label == l) = false := by simpa using h2
        rw [if_neg h1, hbeq, edgeFound_cons_skip label l c rest h3, ih]
        simp only [Bool.false_eq_true, if_false, List.map_cons, lowerBound, natLt, h3, decide_true, if_true,
          upsert, if_neg h1, hbeq]
        split <;> simp

/-- **Refinement.** `node.upsertEdge` on the parallel slices `n.edges`, `n.children`: the two `insert`s,
`n.children[i] = child` and `&n.children[i]` stay in range, and both slices keep the same length. -/
theorem upsertEdgeI_refines (K : List (Nat × Node)) (label : Nat) (child : Node) :
    upsertEdgeI (K.map Prod.fst) (K.map (fun e => conc e.2)) label (conc child) =
      .ok ((upsert label child K).map Prod.fst, (upsert label child K).map (fun e => conc e.2),
        lowerBound natLt label (K.map Prod.fst)) := by
  unfold upsertEdgeI
  have hle := lowerBound_le natLt label (K.map Prod.fst)
  have hux := upsert_ix label child K
  have hef : edgeFound label K = (decide (lowerBound natLt label (K.map Prod.fst) < K.length) &&
    (K.map Prod.fst).getD (lowerBound natLt label (K.map Prod.fst)) default == label) := rfl
  simp only [bsearch, List.length_map, bind, Except.bind] at hle ⊢
  rw [← hef]
  generalize lowerBound natLt label (K.map Prod.fst) = i at hle hux hef ⊢
  cases hf : edgeFound label K with
  | true =>
    have hlt : i < K.length := by
      rw [hef] at hf
      simp only [Bool.and_eq_true, decide_eq_true_eq] at hf; exact hf.1
    have hlab : (K.map Prod.fst)[i]'(by simpa using hlt) = label := by
      rw [hef] at hf
      simp only [Bool.and_eq_true, decide_eq_true_eq, beq_iff_eq] at hf
      rw [← hf.2, getD_eq_getElem _ _ _ (by simpa using hlt)]
    simp only [Bool.not_true, Bool.false_eq_true, if_false]
    rw [setG_ok _ i _ (by simpa using hlt)]
    simp only []
    rw [idxG_ok _ i (by simpa using hlt)]
    simp only [pure, Except.pure]
    rw [hux, if_pos hf]
    simp only [List.map_set]
    congr 2
    rw [← hlab, List.set_getElem_self]
  | false =>
    simp only [Bool.not_false, if_true]
    rw [insertG_refines _ i (by simpa using hle), insertG_refines _ i (by simpa using hle)]
    simp only []
    rw [idxG_ok _ i (by simp; omega)]
    simp only [pure, Except.pure]
    rw [hux]
    simp [hf, List.map_take, List.map_drop]

/-- **Refinement.** `child := node{suf: s}; child.add(…)`. -/
theorem leafI_refines (s scheme : Bytes) (port : Int) (wild : Bool) :
    leafI s scheme port wild = .ok (conc (leaf s.reverse scheme port wild)) := by
  unfold leafI leaf
  have := addI_refines [] scheme port wild
  simp only [List.map_nil] at this
  simp only [bind, Except.bind, this, pure, Except.pure, conc_mk, List.reverse_reverse, List.map_nil]

/-! ### `Tree.Insert` -/

theorem conc_suf (n : Node) : (conc n).suf = n.suf.reverse := by
  cases n with | mk a b c => rw [conc_mk]; rfl

theorem conc_regraft (x : Bytes) (c : Node) :
    INode.mk x.reverse (conc c).edges (conc c).children (conc c).schemes (conc c).ports = conc (.mk x c.schemes c.kids) := by
  cases c with | mk a b d => rw [conc_mk, conc_mk]; rfl

theorem conc_bare (x : Bytes) : INode.mk x.reverse [] [] [] [] = conc (.mk x [] []) := by
  rw [conc_mk]; rfl

theorem map_fst_set_label {β : Type} (K : List (Nat × β)) (i : Nat) (label : Nat) (x : β) (h : i < K.length)
    (hl : (K.map Prod.fst).getD i default = label) : (K.set i (label, x)).map Prod.fst = K.map Prod.fst := by
  rw [List.map_set]
  simp only []
  rw [← hl, getD_eq_getElem _ _ _ (by simpa using h), List.set_getElem_self]

theorem edgeFound_label {label : Nat} {K : List (Nat × Node)} (h : edgeFound label K = true) :
    (K.map Prod.fst).getD (lowerBound natLt label (K.map Prod.fst)) default = label := by
  unfold edgeFound at h
  simp only [Bool.and_eq_true, decide_eq_true_eq, beq_iff_eq] at h
  exact h.2

theorem depth_kid' (K : List (Nat × Node)) (i : Nat) (h : i < K.length) : depth (K.getD i default).2 ≤ depthKids K := by
  have := depth_kid K i h
  rwa [getD_map' Prod.snd K i default default h] at this

/-- **Refinement.** The loop of `Tree.Insert` on the slice representation of any list-level tree: every index
expression is in range, the loop ends within depth-of-the-tree iterations, and the result is the slice
representation of the list-level result. -/
theorem insertLoop_refines : ∀ (fuel : Nat) (n : Node) (s scheme : Bytes) (port : Int) (wild : Bool), depth n < fuel →
    insertLoop fuel (conc n) s scheme port wild = .ok (conc (Node.insert n s.reverse scheme port wild)) := by
  intro fuel
  induction fuel with
  | zero => intro n s scheme port wild h; omega
  | succ fuel ih =>
    intro n s scheme port wild hd
    cases n with
    | mk nsuf S K =>
      rw [conc_mk nsuf S K]
      simp only [insertLoop]
      rw [lastByte_refines]
      simp only [bind, Except.bind]
      rcases List.eq_nil_or_concat s with rfl | ⟨pre, label, rfl⟩
      · simp only [List.getLast?_nil, List.reverse_nil]
        rw [addI_refines, Node.insert]
        simp only [pure, Except.pure, conc_mk]
      · rw [List.concat_eq_append]
        have hlast : (pre ++ [label]).getLast? = some label := by simp
        have hrev : (pre ++ [label]).reverse = label :: pre.reverse := by simp
        rw [hlast, hrev, Node.insert]
        simp only []
        rw [nodeContainsI_refines]
        simp only []
        cases hcp : containsPort S scheme port true with
        | true => simp only [if_true, pure, Except.pure, conc_mk]
        | false =>
          simp only [Bool.false_eq_true, if_false]
          rw [insertKids_ix]
          have hef : edgeFound label K = (decide (lowerBound natLt label (K.map Prod.fst) < K.length) &&
            (K.map Prod.fst).getD (lowerBound natLt label (K.map Prod.fst)) default == label) := rfl
          simp only [bsearch, List.length_map]
          rw [← hef]
          cases hf : edgeFound label K with
          | false =>
            simp only [Bool.not_false, if_true, Bool.false_eq_true, if_false]
            rw [leafI_refines, hrev]
            simp only []
            rw [upsertEdgeI_refines]
            simp only [pure, Except.pure, conc_mk]
          | true =>
            have hlt := edgeFound_lt hf
            have hlab := edgeFound_label hf
            have hux := upsert_ix label (.mk (splitCommon (label :: pre.reverse) (K.getD (lowerBound natLt label (K.map Prod.fst)) default).2.suf).2.2 [] []) K
            rw [if_pos hf] at hux
            generalize hi : lowerBound natLt label (K.map Prod.fst) = i at hlt hlab hux ⊢
            simp only [Bool.not_true, Bool.false_eq_true, if_false, if_true]
            rw [idxG_ok _ i (by simpa using hlt)]
            simp only []
            rw [getD_map' (fun e => conc e.2) K i default default hlt]
            have hdc : depth (K.getD i default).2 < fuel := by
              have h1 := depth_kid' K i hlt
              rw [depth] at hd
              omega
            generalize (K.getD i default).2 = c at hdc hux ⊢
            rw [conc_suf, ← hrev, splitAtCommonSuffix_refines, List.reverse_reverse, hrev]
            simp only []
            rw [lastByte_refines, List.getLast?_reverse]
            cases c with
            | mk csuf cS cK =>
              rw [insertChild]
              simp only [Node.suf] at hux ⊢
              cases hsp : splitCommon (label :: pre.reverse) csuf with
              | mk ra rest =>
                obtain ⟨rb, common⟩ := rest
                rw [hsp] at hux
                simp only [] at hux ⊢
                cases rb with
                | nil =>
                  simp only [List.head?_nil]
                  have := ih (.mk csuf cS cK) ra.reverse scheme port wild hdc
                  rw [List.reverse_reverse] at this
                  rw [this]
                  simp only [pure, Except.pure]
                  rw [conc_mk nsuf S, map_fst_set_label K i label _ hlt hlab, List.map_set]
                | cons l1 restC =>
                  simp only [List.head?_cons]
                  rw [conc_regraft (l1 :: restC) (.mk csuf cS cK), conc_bare common, upsertEdgeI_refines, hi]
                  simp only [Node.schemes, Node.kids]
                  have hg := upsertEdgeI_refines [] l1 (.mk (l1 :: restC) cS cK)
                  simp only [List.map_nil, upsert, List.map_cons, lowerBound] at hg
                  rw [hg]
                  simp only []
                  rw [lastByte_refines, List.getLast?_reverse]
                  rw [hux]
                  cases ra with
                  | nil =>
                    simp only [List.head?_nil]
                    have ha := addI_refines [] scheme port wild
                    simp only [List.map_nil] at ha
                    rw [ha]
                    simp only [pure, Except.pure]
                    rw [conc_mk nsuf S, map_fst_set_label K i label _ hlt hlab, map_fst_set_label K i label _ hlt hlab,
                      List.map_set, List.map_set, List.set_set]
                    simp only [conc_mk, List.map_cons, List.map_nil]
                  | cons l2 restS =>
                    simp only [List.head?_cons]
                    rw [leafI_refines, List.reverse_reverse]
                    simp only []
                    have hg2 := upsertEdgeI_refines [(l1, .mk (l1 :: restC) cS cK)] l2 (leaf (l2 :: restS) scheme port wild)
                    simp only [List.map_nil, List.map_cons] at hg2
                    rw [hg2]
                    simp only [pure, Except.pure]
                    rw [conc_mk nsuf S, map_fst_set_label K i label _ hlt hlab, map_fst_set_label K i label _ hlt hlab,
                      List.map_set, List.map_set, List.set_set]
                    simp only [conc_mk, List.map_nil]

mutual
theorem depthI_conc : (n : Node) → depthI (conc n) = depth n
  | .mk suf S K => by rw [conc, depthI, depth, depthIs_concKids K]
theorem depthIs_concKids : (K : List (Nat × Node)) → depthIs (concKids K) = depthKids K
  | [] => by simp [concKids, depthIs, depthKids]
  | (l, c) :: rest => by rw [concKids, depthIs, depthKids, depthI_conc c, depthIs_concKids rest]
end

/-- **Refinement.** `Tree.Insert`, for a pattern whose host value is not empty (P1: every parsed pattern). -/
theorem treeInsert_refines (t : Node) (p : Pattern) (h : p.value ≠ []) :
    treeInsert (conc t) p = .ok (conc (Tree.insert t p)) := by
  unfold treeInsert Tree.insert
  cases hv : p.value with
  | nil => exact absurd hv h
  | cons c rest =>
    simp only [bind, Except.bind]
    rw [idx_zero]
    simp only []
    by_cases hc : c = 42
    · subst hc
      simp only [beq_self_eq_true, if_true]
      have hsl := sliceFrom_append [42] rest 1 rfl
      simp only [List.cons_append, List.nil_append] at hsl
      rw [hsl]
      simp only []
      exact insertLoop_refines _ t rest p.scheme p.port true (by rw [depthI_conc]; omega)
    · have hne : (c == 42) = false := by simpa using hc
      simp only [hne, Bool.false_eq_true, if_false]
      rw [insertLoop_refines _ t (c :: rest) p.scheme p.port false (by rw [depthI_conc]; omega)]
      split
      · rename_i s heq
        simp at heq; exact absurd heq.1 hc
      · rfl

theorem conc_empty : conc Node.empty = INode.zero := by
  unfold Node.empty INode.zero; rw [conc_mk]; rfl

/-- `validateOrigins`' loop over the accepted patterns: `tree.Insert(pattern)` one after the other. -/
def buildI : List Pattern → INode → Chk INode
  | [], t => pure t
  | p :: ps, t => do
    let t' ← treeInsert t p
    buildI ps t'

theorem buildI_refines : ∀ (ps : List Pattern) (t : Node), (∀ p ∈ ps, p.value ≠ []) →
    buildI ps (conc t) = .ok (conc (ps.foldl Tree.insert t)) := by
  intro ps
  induction ps with
  | nil => intro t _; rfl
  | cons p ps ih =>
    intro t h
    simp only [buildI, bind, Except.bind]
    rw [treeInsert_refines t p (h p List.mem_cons_self)]
    simp only [List.foldl_cons]
    exact ih _ (fun q hq => h q (List.mem_cons_of_mem _ hq))

/-! ### The length invariants of `origins.node` -/

mutual
theorem WFI_conc : (n : Node) → WFI (conc n)
  | .mk suf S K => by
    rw [conc, WFI]
    refine ⟨?_, by simp, WFIs_concKids K⟩
    rw [concKids_eq_map]; simp
theorem WFIs_concKids : (K : List (Nat × Node)) → WFIs (concKids K)
  | [] => by rw [concKids, WFIs]; trivial
  | (l, c) :: rest => by rw [concKids, WFIs]; exact ⟨WFI_conc c, WFIs_concKids rest⟩
end

/-! ### `node.elems` -/

theorem elemsSchemes_refines (host : Bytes) : ∀ (S P : List (Bytes × List Int)),
    elemsSchemes ((P ++ S).map Prod.fst) host (S.map Prod.snd) P.length =
      .ok (S.flatMap fun (scheme, ports) => ports.map (renderEntry scheme host)) := by
  intro S
  induction S with
  | nil => intro P; rfl
  | cons x rest ih =>
    intro P
    obtain ⟨sch, ps⟩ := x
    simp only [List.map_cons, elemsSchemes, bind, Except.bind]
    rw [idxG_ok _ P.length (by simp)]
    simp only []
    have hget : ((P ++ (sch, ps) :: rest).map Prod.fst).getD P.length default = sch := by
      rw [List.map_append, List.getD_eq_getElem?_getD, List.getElem?_append_right (by simp)]
      simp
    rw [hget]
    have := ih (P ++ [(sch, ps)])
    rw [List.append_assoc, List.length_append] at this
    simp only [List.cons_append, List.nil_append, List.length_cons, List.length_nil] at this
    rw [this]
    simp [pure, Except.pure, renderPorts]

theorem elemsChildren_refines (f : INode → Bytes → Chk (List Bytes)) (host : Bytes) : ∀ (K P : List (Nat × Node)),
    (∀ e ∈ K, f (conc e.2) host = .ok (Node.elems e.2 host)) →
    elemsChildren f ((P ++ K).map (fun e => conc e.2)) host (K.map (fun e => conc e.2)) P.length =
      .ok (Node.elemsKids K host) := by
  intro K
  induction K with
  | nil => intro P _; rw [Node.elemsKids]; rfl
  | cons x rest ih =>
    intro P hf
    obtain ⟨l, c⟩ := x
    simp only [List.map_cons, elemsChildren, bind, Except.bind]
    rw [idxG_ok _ P.length (by simp)]
    simp only []
    have hget : ((P ++ (l, c) :: rest).map (fun e => conc e.2)).getD P.length default = conc c := by
      rw [List.map_append, List.getD_eq_getElem?_getD, List.getElem?_append_right (by simp)]
      simp
    rw [hget, hf (l, c) List.mem_cons_self]
    simp only []
    have := ih (P ++ [(l, c)]) (fun e he => hf e (List.mem_cons_of_mem _ he))
    rw [List.append_assoc, List.length_append] at this
    simp only [List.cons_append, List.nil_append, List.length_cons, List.length_nil] at this
    rw [this, Node.elemsKids]
    rfl

theorem depth_mem (K : List (Nat × Node)) (e : Nat × Node) (h : e ∈ K) : depth e.2 ≤ depthKids K := by
  induction K with
  | nil => cases h
  | cons x rest ih =>
    obtain ⟨l, c⟩ := x
    rw [depthKids]
    rcases List.mem_cons.mp h with rfl | h
    · exact Nat.le_max_left _ _
    · exact Nat.le_trans (ih h) (Nat.le_max_right _ _)

/-- **Refinement.** `node.elems`: `n.schemes[i]` for `i` ranging over `n.ports` and `n.children[i]` are in range
(this is where `len(schemes) == len(ports)` is needed), and the recursion ends. -/
theorem elemsLoop_refines : ∀ (fuel : Nat) (n : Node) (acc : Bytes), depth n < fuel →
    elemsLoop fuel (conc n) acc = .ok (Node.elems n acc) := by
  intro fuel
  induction fuel with
  | zero => intro n acc h; omega
  | succ fuel ih =>
    intro n acc hd
    cases n with
    | mk nsuf S K =>
      rw [conc_mk, Node.elems]
      simp only [elemsLoop, bind, Except.bind]
      have h1 := elemsSchemes_refines (nsuf.reverse ++ acc) S []
      simp only [List.nil_append, List.length_nil] at h1
      rw [h1]
      simp only []
      have h2 := elemsChildren_refines (elemsLoop fuel) (nsuf.reverse ++ acc) K [] (by
        intro e he
        apply ih
        have := depth_mem K e he
        rw [depth] at hd
        omega)
      simp only [List.nil_append, List.length_nil] at h2
      rw [h2]
      rfl

/-- **Refinement.** `Tree.Elems`. -/
theorem treeElems_refines (t : Node) : treeElems (conc t) = .ok (Tree.elems t) := by
  unfold treeElems Tree.elems
  simp only [bind, Except.bind]
  rw [elemsLoop_refines _ t [] (by rw [depthI_conc]; omega)]
  rfl

end Ix
end Cors
