import CorsVerif.Proofs.StoreOwn
/-
  `Tree.Insert`, exactly: on a tree that satisfies the invariant, the stored entries after an
  insertion are a permutation of `absInsert (stored entries) (new entry)`.
-/
namespace Cors
open Gen
namespace Node

theorem childEntries_eq (c : Node) : childEntries c = (entries c).map (pre c.suf) := rfl

theorem entries_own_eq (suf : Bytes) (S : List (Bytes × List Int)) (K : List (Nat × Node)) :
    entries (.mk suf S K) = (own S).map ownE ++ entriesKids K := by
  rw [entries_mk]; rfl

/-- Every key below a node starts with the label of one of its edges. -/
theorem kids_keys (K : List (Nat × Node)) (hK : KidsInv K) (x : Entry) (hx : x ∈ entriesKids K) :
    ∃ l ∈ K.map Prod.fst, ∃ t, x.1 = l :: t := by
  induction K with
  | nil => rw [entriesKids_nil] at hx; cases hx
  | cons e rest ih =>
    obtain ⟨l, c⟩ := e
    rw [KidsInv_cons] at hK
    rw [entriesKids_cons'] at hx
    rcases List.mem_append.mp hx with h | h
    · rw [childEntries_eq] at h
      obtain ⟨e', _, rfl⟩ := List.mem_map.mp h
      cases hc : c.suf with
      | nil => rw [hc] at hK; simp at hK
      | cons a t =>
        have : a = l := by have := hK.1; rw [hc] at this; simpa using this
        subst this
        exact ⟨a, by simp, t ++ e'.1, by simp [pre]⟩
    · obtain ⟨l', hl', t, ht⟩ := ih hK.2.2.2 h
      exact ⟨l', List.mem_cons_of_mem _ hl', t, ht⟩

theorem child_keys (c : Node) (l : Nat) (hc : c.suf.head? = some l) (x : Entry) (hx : x ∈ childEntries c) :
    ∃ t, x.1 = l :: t := by
  rw [childEntries_eq] at hx
  obtain ⟨e', _, rfl⟩ := List.mem_map.mp hx
  cases hs : c.suf with
  | nil => rw [hs] at hc; simp at hc
  | cons a t =>
    have : a = l := by rw [hs] at hc; simpa using hc
    subst this
    exact ⟨t ++ e'.1, by simp [pre]⟩

theorem apart_of_heads {x e : Entry} {a b : Nat} {t1 t2 : Bytes} (hx : x.1 = a :: t1) (he : e.1 = b :: t2) (hab : a ≠ b) :
    Apart x e := apart_of_diverge [] t1 t2 a b (by simpa using hx) (by simpa using he) hab

/-- The test made at a node that the key passes through. -/
theorem containsPort_anc (S : List (Bytes × List Int)) (hS : SchemesOK S) (sch : Bytes) (p : Int) (w : Bool)
    (hp : 0 ≤ p ∧ p ≤ 65536) :
    containsPort S sch p true = (own S).any (fun x => x.1 == sch && ancDrop x.2 (code p w)) := by
  have hdec : decodePort (code p w) = p := by
    unfold decodePort
    cases w with
    | false => rw [code_false, if_neg (by omega)]
    | true => rw [code_true, if_pos (by omega)]; omega
  rw [containsPort_eq, Bool.eq_iff_iff]
  cases hl : lookupScheme sch S with
  | none =>
    simp only [Bool.false_eq_true, false_iff]
    intro h
    obtain ⟨⟨xs, xc⟩, hx, hc⟩ := List.any_eq_true.mp h
    simp only [Bool.and_eq_true, beq_iff_eq] at hc
    obtain ⟨qs, hm, _⟩ := mem_own.mp hx
    rw [hc.1] at hm
    rw [lookup_unique hS hm] at hl
    cases hl
  | some ps =>
    simp only []
    have hmem := lookup_mem hl
    rw [covers_iff, List.any_eq_true, code_true, wildCode_true]
    constructor
    · rintro (h | h)
      · exact ⟨(sch, p - 65537), mem_own.mpr ⟨ps, hmem, h⟩, by simp [ancDrop, hdec]⟩
      · exact ⟨(sch, -1), mem_own.mpr ⟨ps, hmem, h⟩, by simp [ancDrop]⟩
    · rintro ⟨⟨xs, xc⟩, hx, hc⟩
      simp only [Bool.and_eq_true, beq_iff_eq] at hc
      obtain ⟨qs, hm, hq⟩ := mem_own.mp hx
      rw [hc.1] at hm
      have := lookup_unique hS hm
      rw [hl] at this
      cases this
      have hd := hc.2
      unfold ancDrop at hd
      rw [hdec] at hd
      simp only [Bool.or_eq_true, beq_iff_eq] at hd
      rcases hd with hd | hd
      · left; rw [← hd]; exact hq
      · right; rw [← hd]; exact hq

/-- The own entries of a node seen from a key that goes further down: they drop it exactly when
the ancestor test fires, and they are never deleted by it. -/
theorem own_vs_deeper (S : List (Bytes × List Int)) (hS : SchemesOK S) (label : Nat) (srest sch : Bytes) (p : Int) (w : Bool)
    (hp : 0 ≤ p ∧ p ≤ 65536) :
    ((own S).map ownE).any (drops · (label :: srest, sch, code p w)) = containsPort S sch p true ∧
    ∀ x ∈ (own S).map ownE, deletes (label :: srest, sch, code p w) x = false := by
  constructor
  · rw [containsPort_anc S hS sch p w hp, List.any_map]
    congr 1
  · intro x hx
    obtain ⟨y, _, rfl⟩ := List.mem_map.mp hx
    simp [deletes, ownE]

def ExactSpec (n : Node) : Prop :=
  Inv n → ∀ (s sch : Bytes) (p : Int) (w : Bool), 0 ≤ p ∧ p ≤ 65536 →
    (entries (insert n s sch p w)).Perm (absInsert (entries n) (s, sch, code p w))

def ExactKidsSpec (K : List (Nat × Node)) : Prop :=
  KidsInv K → ∀ (label : Nat) (srest sch : Bytes) (p : Int) (w : Bool), 0 ≤ p ∧ p ≤ 65536 →
    (entriesKids (insertKids K label (label :: srest) sch p w)).Perm
      (absInsert (entriesKids K) (label :: srest, sch, code p w))

theorem leaf_childEntries (s sch : Bytes) (p : Int) (w : Bool) : childEntries (leaf s sch p w) = [(s, sch, code p w)] := by
  unfold childEntries leaf
  rw [entries_mk, entriesKids_nil, List.append_nil]
  simp only [Node.suf]
  have : own (addPort [] sch p w) = [(sch, code p w)] := by
    simp [addPort, containsPort, lookupScheme, addScheme, own]
  rw [this]
  simp

/-- The edge exists: descend or split. -/
theorem insertChild_exact (c : Node) (ih : ExactSpec c) (hc : Inv c) (label : Nat) (srest : Bytes)
    (hhead : c.suf.head? = some label) (sch : Bytes) (p : Int) (w : Bool) (hp : 0 ≤ p ∧ p ≤ 65536) :
    (childEntries (insertChild c (label :: srest) sch p w)).Perm
      (absInsert (childEntries c) (label :: srest, sch, code p w)) := by
  cases c with
  | mk csuf cS cK =>
    rw [insertChild]
    obtain ⟨hs, hcs, hdiff⟩ := splitCommon_spec (label :: srest) csuf
    cases hsp : splitCommon (label :: srest) csuf with
    | mk restS r2 =>
      obtain ⟨restC, common⟩ := r2
      rw [hsp] at hs hcs hdiff
      simp only [] at hs hcs hdiff
      cases restC with
      | nil =>
        -- descend: the child's suffix is a prefix of the key
        simp only [List.append_nil] at hcs
        simp only []
        rw [childEntries_eq, childEntries_eq, insert_suf]
        simp only [Node.suf]
        have hkey : ((label :: srest, sch, code p w) : Entry) = pre csuf (restS, sch, code p w) := by
          simp only [pre]; rw [hcs, ← hs]
        rw [hkey, absInsert_pre]
        exact (ih hc restS sch p w hp).map _
      | cons l1 rc =>
        simp only []
        have hgc : entries (mk (l1 :: rc) cS cK) = entries (mk csuf cS cK) := entries_suf_irrel _ _ _ _
        -- every stored key of the child runs through `common ++ l1 :: rc`
        have hkeys : ∀ x ∈ childEntries (mk csuf cS cK), ∃ t, x.1 = common ++ l1 :: t := by
          intro x hx
          rw [childEntries_eq] at hx
          obtain ⟨e', _, rfl⟩ := List.mem_map.mp hx
          exact ⟨rc ++ e'.1, by simp only [pre, Node.suf]; rw [hcs]; simp⟩
        have hold : (childEntries (mk (l1 :: rc) cS cK)).map (pre common) = childEntries (mk csuf cS cK) := by
          rw [childEntries_eq, childEntries_eq, hgc, List.map_map]
          simp only [Node.suf]
          have : (pre common ∘ pre (l1 :: rc)) = pre csuf := by
            funext e; simp only [Function.comp, pre]; rw [hcs]; simp
          rw [this]
        cases restS with
        | nil =>
          -- the key ends inside the child's suffix
          simp only [List.append_nil] at hs
          simp only []
          have happ : ∀ x ∈ childEntries (mk csuf cS cK), Apart x (label :: srest, sch, code p w) := by
            intro x hx
            obtain ⟨t, ht⟩ := hkeys x hx
            exact apart_of_longer l1 t (by simp only []; rw [ht, hs])
          rw [absInsert_apart _ _ happ]
          rw [childEntries_eq]
          simp only [Node.suf]
          rw [entries_own_eq, entriesKids_cons', entriesKids_nil, List.append_nil, List.map_append]
          have hown : own (addPort [] sch p w) = [(sch, code p w)] := by
            simp [addPort, containsPort, lookupScheme, addScheme, own]
          rw [hown, hold]
          have h1 : List.map (pre common) (List.map ownE [(sch, code p w)]) = [(label :: srest, sch, code p w)] := by
            simp only [List.map_cons, List.map_nil, ownE, pre, List.append_nil]; rw [← hs]
          rw [h1]
          exact List.Perm.refl _
        | cons l2 rs =>
          simp only []
          have hne : l2 ≠ l1 := hdiff l2 l1 rs rc rfl rfl
          have happ : ∀ x ∈ childEntries (mk csuf cS cK), Apart x (label :: srest, sch, code p w) := by
            intro x hx
            obtain ⟨t, ht⟩ := hkeys x hx
            exact apart_of_diverge common t rs l1 l2 ht (by simp only []; exact hs) (fun h => hne h.symm)
          rw [absInsert_apart _ _ happ]
          rw [childEntries_eq]
          simp only [Node.suf]
          rw [entries_own_eq]
          simp only [own, List.flatMap_nil, List.map_nil, List.nil_append]
          rw [upsert_two l1 l2 _ _ (fun h => hne h.symm)]
          have hleaf : (childEntries (leaf (l2 :: rs) sch p w)).map (pre common) = [(label :: srest, sch, code p w)] := by
            rw [leaf_childEntries]; simp only [List.map_cons, List.map_nil, pre]; rw [← hs]
          split
          · rw [entriesKids_cons', entriesKids_cons', entriesKids_nil, List.append_nil, List.map_append, hleaf, hold]
            exact List.Perm.refl _
          · rw [entriesKids_cons', entriesKids_cons', entriesKids_nil, List.append_nil, List.map_append, hleaf, hold]
            exact List.perm_append_comm

mutual
theorem exact_spec : (n : Node) → ExactSpec n
  | .mk suf S K => by
    intro hinv s sch p w hp
    rw [Inv_mk] at hinv
    obtain ⟨hS, hK⟩ := hinv
    have hkidsApartNil : ∀ e : Entry, e.1 = [] → ∀ x ∈ entriesKids K, Apart x e := by
      intro e he x hx
      obtain ⟨l, _, t, ht⟩ := kids_keys K hK x hx
      exact apart_of_longer l t (by rw [ht, he]; rfl)
    cases s with
    | nil =>
      rw [insert, entries_own_eq, entries_own_eq]
      rw [absInsert_append_right _ _ _ (hkidsApartNil _ rfl)]
      exact (own_exact S hS sch p w hp).append_right _
    | cons label srest =>
      rw [insert]
      obtain ⟨hany, hdel⟩ := own_vs_deeper S hS label srest sch p w hp
      split
      · rename_i hcp
        rw [entries_own_eq]
        unfold absInsert
        rw [List.any_append, hany, hcp, Bool.true_or]
        exact List.Perm.refl _
      · rename_i hcp
        rw [entries_own_eq, entries_own_eq]
        have happ : ∀ x ∈ (own S).map ownE, Apart x (label :: srest, sch, code p w) := by
          intro x hx
          refine ⟨?_, hdel x hx⟩
          have : ((own S).map ownE).any (drops · (label :: srest, sch, code p w)) = false := by
            rw [hany]; simpa using hcp
          rw [List.any_eq_false] at this
          simpa using this x hx
        refine List.Perm.trans ?_ (absInsert_append_left _ _ _ happ).symm
        exact (exact_kids_spec K hK label srest sch p w hp).append_left _

theorem exact_kids_spec : (K : List (Nat × Node)) → ExactKidsSpec K
  | [] => by
    intro _ label srest sch p w hp
    rw [insertKids, entriesKids_cons', entriesKids_nil, List.append_nil, leaf_childEntries]
    exact List.Perm.refl _
  | (l, c) :: rest => by
    intro hK label srest sch p w hp
    rw [KidsInv_cons] at hK
    obtain ⟨hhead, hc, hlt, hrest⟩ := hK
    have hrestApart : label ≤ l → ∀ x ∈ entriesKids rest, Apart x (label :: srest, sch, code p w) := by
      intro hl x hx
      obtain ⟨l', hl', t, ht⟩ := kids_keys rest hrest x hx
      obtain ⟨e', he', rfl⟩ := List.mem_map.mp hl'
      have := hlt e' he'
      exact apart_of_heads ht rfl (by omega)
    rw [insertKids]
    split
    · -- a new edge in front
      rename_i hlab
      rw [entriesKids_cons', leaf_childEntries]
      have happ : ∀ x ∈ entriesKids ((l, c) :: rest), Apart x (label :: srest, sch, code p w) := by
        intro x hx
        rw [entriesKids_cons'] at hx
        rcases List.mem_append.mp hx with h | h
        · obtain ⟨t, ht⟩ := child_keys c l hhead x h
          exact apart_of_heads ht rfl (by omega)
        · obtain ⟨l', hl', t, ht⟩ := kids_keys rest hrest x h
          obtain ⟨e', he', rfl⟩ := List.mem_map.mp hl'
          have := hlt e' he'
          exact apart_of_heads ht rfl (by omega)
      rw [absInsert_apart _ _ happ]
      exact List.Perm.refl _
    · split
      · -- the edge exists
        rename_i hnlt heq
        have hl : label = l := by simpa using heq
        subst hl
        rw [entriesKids_cons', entriesKids_cons']
        rw [absInsert_append_right _ _ _ (hrestApart (Nat.le_refl _))]
        exact (insertChild_exact c (exact_spec c) hc label srest hhead sch p w hp).append_right _
      · -- further right
        rename_i hnlt hneq
        have hgt : l < label := by
          have : ¬ label = l := by simpa using hneq
          omega
        rw [entriesKids_cons', entriesKids_cons']
        have happ : ∀ x ∈ childEntries c, Apart x (label :: srest, sch, code p w) := by
          intro x hx
          obtain ⟨t, ht⟩ := child_keys c l hhead x hx
          exact apart_of_heads ht rfl (by omega)
        refine List.Perm.trans ?_ (absInsert_append_left _ _ _ happ).symm
        exact (exact_kids_spec rest hrest label srest sch p w hp).append_left _
end

/-- **`Node.insert` realises `absInsert` on the stored entries** (up to the order of traversal). -/
theorem insert_exact (n : Node) (hn : Inv n) (s sch : Bytes) (p : Int) (w : Bool) (hp : 0 ≤ p ∧ p ≤ 65536) :
    (entries (insert n s sch p w)).Perm (absInsert (entries n) (s, sch, code p w)) :=
  exact_spec n hn s sch p w hp

end Node
end Cors
