import CorsVerif.Spec.Basic
/-
  Helper lemmas about header maps and the steps of the preflight pipeline.
-/
namespace Cors
open Gen Serve

theorem ite_app {α β : Type} (c : Prop) [Decidable c] (f g : α → β) (a : α) :
    (if c then f else g) a = if c then f a else g a := by split <;> rfl

theorem assign_other (h : HdrMap) (k n : Bytes) (v : List Bytes) (hn : n ≠ k) : (h.assign k v) n = h n := by
  simp [HdrMap.assign, hn]

theorem assign_same (h : HdrMap) (k : Bytes) (v : List Bytes) : (h.assign k v) k = some v := by
  simp [HdrMap.assign]

theorem set_other (h : HdrMap) (k n v : Bytes) (hn : n ≠ k) : (h.set k v) n = h n := assign_other h k n [v] hn

theorem set_same (h : HdrMap) (k v : Bytes) : (h.set k v) k = some [v] := assign_same h k [v]

theorem add_other (h : HdrMap) (k n v : Bytes) (hn : n ≠ k) : (h.add k v) n = h n := assign_other h k n _ hn

theorem add_same (h : HdrMap) (k v : Bytes) : (h.add k v) k = some ((h k).getD [] ++ [v]) := by
  simp [HdrMap.add, HdrMap.assign]

theorem keptAsPrefix_refl (x : Option (List Bytes)) : keptAsPrefix x x := List.prefix_refl _

theorem keptAsPrefix_add (h : HdrMap) (k v : Bytes) : keptAsPrefix (h k) ((h.add k v) k) := by
  rw [add_same]; exact List.prefix_append _ _

theorem keptAsPrefix_trans {x y z : Option (List Bytes)} (h1 : keptAsPrefix x y) (h2 : keptAsPrefix y z) :
    keptAsPrefix x z := List.IsPrefix.trans h1 h2

theorem vary_ne_acao : Facts.headers_Vary ≠ Facts.headers_ACAO := by decide
theorem vary_ne_acac : Facts.headers_Vary ≠ Facts.headers_ACAC := by decide
theorem vary_ne_aceh : Facts.headers_Vary ≠ Facts.headers_ACEH := by decide
theorem vary_ne_acam : Facts.headers_Vary ≠ Facts.headers_ACAM := by decide
theorem vary_ne_acah : Facts.headers_Vary ≠ Facts.headers_ACAH := by decide
theorem vary_ne_acma : Facts.headers_Vary ≠ Facts.headers_ACMA := by decide
theorem vary_ne_acapn : Facts.headers_Vary ≠ Facts.headers_ACAPN := by decide

theorem copy_none (h buf : HdrMap) (n : Bytes) (hn : buf n = none) : (h.copy buf) n = h n := by
  simp [HdrMap.copy, hn]

theorem copy_some (h buf : HdrMap) (n : Bytes) (v : List Bytes) (hn : buf n = some v) : (h.copy buf) n = some v := by
  simp [HdrMap.copy, hn]

/-- After `maps.Copy`, a key either keeps its old value or carries the value of the buffer. -/
theorem copy_lookup (buf h : HdrMap) (n : Bytes) :
    (h.copy buf) n = h n ∨ ∃ v, buf n = some v ∧ (h.copy buf) n = some v := by
  cases hb : buf n with
  | none => left; exact copy_none h buf n hb
  | some v => right; exact ⟨v, rfl, copy_some h buf n v hb⟩

theorem copy_empty (h : HdrMap) : h.copy HdrMap.empty = h := by
  funext n; simp [HdrMap.copy, HdrMap.empty]

end Cors
