import CorsVerif.Proofs.Folds
import CorsVerif.Proofs.Sound
import CorsVerif.Proofs.Render
import CorsVerif.Proofs.Tables
/-
  The method / header / max-age parts of C06: validating what `newConfig` renders gives back
  the same internal values.
-/
namespace Cors
open Gen Validate Folds Headers

namespace CfgRT

/-! ### normalisation -/

theorem upperByte_idem (b : Nat) : Bytes.upperByte (Bytes.upperByte b) = Bytes.upperByte b := by
  unfold Bytes.upperByte
  split <;> (try split) <;> omega

theorem upper_idem (s : Bytes) : s.upper.upper = s.upper := by
  unfold Bytes.upper
  rw [List.map_map]
  apply List.map_congr_left
  intro b _
  exact upperByte_idem b

theorem tchar_upperByte {b : Nat} (h : isTchar b = true) : isTchar (Bytes.upperByte b) = true := by
  unfold Bytes.upperByte
  split
  · unfold isTchar
    simp only [Bool.or_eq_true, Bool.and_eq_true, decide_eq_true_eq]
    exact Or.inl (Or.inl (Or.inr ⟨by omega, by omega⟩))
  · exact h

theorem valid_upper {n : Bytes} (h : isValid n = true) : isValid n.upper = true := by
  simp only [isValid, Bool.and_eq_true, List.all_eq_true, Bool.not_eq_true'] at h ⊢
  constructor
  · cases n with
    | nil => simp at h
    | cons _ _ => rfl
  · intro b hb
    simp only [Bytes.upper, List.mem_map] at hb
    obtain ⟨c, hc, rfl⟩ := hb
    exact tchar_upperByte (h.2 c hc)

theorem normalize_cases (m : Bytes) : Methods.normalize m = m.upper ∧
      (SortedSet.ofList Facts.methods_browserNormalizedMethods).contains m.upper = true ∨
    Methods.normalize m = m ∧ (SortedSet.ofList Facts.methods_browserNormalizedMethods).contains m.upper = false := by
  unfold Methods.normalize
  simp only []
  cases h : (SortedSet.ofList Facts.methods_browserNormalizedMethods).contains m.upper with
  | true => exact Or.inl ⟨by simp, rfl⟩
  | false => exact Or.inr ⟨by simp, rfl⟩

theorem normalize_idem (m : Bytes) : Methods.normalize (Methods.normalize m) = Methods.normalize m := by
  rcases normalize_cases m with ⟨h1, h2⟩ | ⟨h1, h2⟩
  · rw [h1]
    unfold Methods.normalize
    simp only [upper_idem, h2, if_true]
  · rw [h1, h1]

theorem normalize_valid {m : Bytes} (h : Methods.isValid m = true) : Methods.isValid (Methods.normalize m) = true := by
  rcases normalize_cases m with ⟨h1, _⟩ | ⟨h1, _⟩
  · rw [h1]; exact valid_upper h
  · rw [h1]; exact h

theorem normalize_ne_star {m : Bytes} (h : m ≠ Validate.star) : Methods.normalize m ≠ Validate.star := by
  rcases normalize_cases m with ⟨h1, h2⟩ | ⟨h1, _⟩
  · rw [h1]
    intro h0
    rw [h0] at h2
    revert h2; decide
  · rw [h1]; exact h

end CfgRT
end Cors

namespace Cors
open Gen Validate Folds Headers
namespace CfgRT

theorem set_of_nil {s : SortedSet} (he : s.Exact) (h : s.elems = []) : s = {} := by
  cases s with
  | mk elems maxLen =>
    simp only at h
    subst h
    have := he.exact
    simp only [maxLenOf] at this
    subst this
    rfl

theorem flatMap_nil_of {α β : Type} (l : List α) (f : α → List β) (h : ∀ x ∈ l, f x = []) : l.flatMap f = [] := by
  induction l with
  | nil => rfl
  | cons a t ih => rw [List.flatMap_cons, h a List.mem_cons_self, ih (fun x hx => h x (List.mem_cons_of_mem _ hx))]; rfl

theorem nil_of_flatMap_nil {α β : Type} {l : List α} {f : α → List β} (h : l.flatMap f = []) : ∀ x ∈ l, f x = [] := by
  intro x hx
  induction l with
  | nil => cases hx
  | cons a t ih =>
    rw [List.flatMap_cons, List.append_eq_nil_iff] at h
    rcases List.mem_cons.mp hx with rfl | hx
    · exact h.1
    · exact ih h.2 hx

/-- What `newConfig` renders for the methods. -/
def renderMethods (any : Bool) (set : SortedSet) : List Bytes :=
  if any then [Validate.star] else if set.size > 0 then set.elems else []

/-- **Methods round trip.** -/
theorem methods_roundtrip (names : List Bytes) :
    Validate.methods (renderMethods (Validate.methods names).2.1 (Validate.methods names).2.2) =
      ([], (Validate.methods names).2.1, (Validate.methods names).2.2) := by
  obtain ⟨e1, a1, m1⟩ := methods_fold names {} SortedSet.empty_exact
  unfold renderMethods
  cases hany : (Validate.methods names).2.1 with
  | true =>
    have hset : (Validate.methods names).2.2 = {} := by
      unfold Validate.methods at hany ⊢
      simp only [] at hany ⊢
      rw [hany]; rfl
    rw [hset]
    simp only [if_true]
    decide
  | false =>
    have hany' : (names.foldl methodStep {}).any = false := hany
    have hset : (Validate.methods names).2.2 = (names.foldl methodStep {}).set := by
      unfold Validate.methods
      simp only [hany', Bool.false_eq_true, if_false]
    rw [hset]
    simp only [Bool.false_eq_true, if_false]
    cases hel : (names.foldl methodStep {}).set.elems with
    | nil =>
      have : (names.foldl methodStep {}).set = {} := set_of_nil e1 hel
      rw [this]
      decide
    | cons x xs =>
      have hsz : (names.foldl methodStep {}).set.size > 0 := by unfold SortedSet.size; rw [hel]; simp
      rw [if_pos hsz, ← hel]
      -- facts about every stored element
      have hfacts : ∀ e ∈ (names.foldl methodStep {}).set.elems,
          e ≠ Validate.star ∧ Methods.isValid e = true ∧ Methods.normalize e = e ∧ goodMethod e = true := by
        intro e he
        rcases (m1 e).mp he with h | ⟨n, _, hg, rfl⟩
        · cases h
        · unfold goodMethod at hg
          simp only [Bool.and_eq_true, bne_iff_ne, ne_eq, Bool.not_eq_true'] at hg
          obtain ⟨⟨⟨hns, hv⟩, hsafe⟩, hforb⟩ := hg
          refine ⟨normalize_ne_star hns, normalize_valid hv, normalize_idem n, ?_⟩
          unfold goodMethod
          rw [normalize_idem, hsafe, hforb, normalize_valid hv]
          have : (Methods.normalize n != Validate.star) = true := by simpa using normalize_ne_star hns
          rw [this]; rfl
      obtain ⟨e2, a2, m2⟩ := methods_fold (names.foldl methodStep {}).set.elems {} SortedSet.empty_exact
      have herrs : ((names.foldl methodStep {}).set.elems.foldl methodStep {}).errs = [] := by
        rw [methods_errs]
        simp only [List.nil_append]
        apply flatMap_nil_of
        intro e he
        obtain ⟨hns, hv, hnorm, hg⟩ := hfacts e he
        unfold goodMethod at hg
        simp only [Bool.and_eq_true, Bool.not_eq_true'] at hg
        unfold methodErr
        have h1 : (e == Validate.star) = false := by simpa using hns
        simp [h1, hv, hg.1.2, hg.2]
      have hany2 : ((names.foldl methodStep {}).set.elems.foldl methodStep {}).any = false := by
        rw [a2]
        simp only [Bool.false_or]
        cases hc : (names.foldl methodStep {}).set.elems.contains Validate.star with
        | false => rfl
        | true => exact absurd rfl (hfacts _ (List.contains_iff_mem.mp hc)).1
      have hset2 : ((names.foldl methodStep {}).set.elems.foldl methodStep {}).set = (names.foldl methodStep {}).set := by
        apply SortedSet.ext_members e2 e1
        intro x
        rw [m2]
        constructor
        · rintro (h | ⟨e, he, _, rfl⟩)
          · cases h
          · rw [(hfacts e he).2.2.1]; exact he
        · intro hx
          exact Or.inr ⟨x, hx, (hfacts x hx).2.2.2, (hfacts x hx).2.2.1.symm⟩
      unfold Validate.methods
      simp only [herrs, hany2, hset2, Bool.false_eq_true, if_false]

end CfgRT
end Cors

namespace Cors
open Gen Validate Folds Headers
namespace CfgRT

/-- What `newConfig` renders for the response headers. -/
def renderResHdrs (aceh : Bytes) : List Bytes :=
  if aceh.length > 0 then Bytes.splitOn Headers.comma aceh else []

theorem join_ne_nil {ns : List Bytes} (hne : ns ≠ []) (hv : ∀ n ∈ ns, isValid n = true) : (Bytes.join comma ns).length > 0 := by
  cases ns with
  | nil => exact absurd rfl hne
  | cons a t =>
    have := Browser.valid_ne_nil (hv a List.mem_cons_self)
    cases a with
    | nil => exact absurd rfl this
    | cons c s => cases t <;> simp [Bytes.join]

/-- **Response headers round trip.** -/
theorem resHdrs_roundtrip (cred : Bool) (names : List Bytes) (herr : (Validate.responseHeaders cred names).1 = []) :
    Validate.responseHeaders cred (renderResHdrs (Validate.responseHeaders cred names).2) =
      ([], (Validate.responseHeaders cred names).2) := by
  obtain ⟨e1, a1, m1⟩ := resHdr_fold cred names {} SortedSet.empty_exact
  have herr' : names.flatMap (resHdrErr cred) = [] := by
    have : (names.foldl (resHdrStep cred) {}).errs = [] := herr
    rw [resHdr_errs] at this
    simpa using this
  unfold renderResHdrs
  cases hall : (names.foldl (resHdrStep cred) {}).all with
  | true =>
    have haceh : (Validate.responseHeaders cred names).2 = Validate.star := by
      unfold Validate.responseHeaders; simp only [hall, if_true]
    rw [haceh]
    -- `*` is listed, so credentialed access is off
    have hstar : names.contains Validate.star = true := by rw [a1] at hall; simpa using hall
    have hc : cred = false := by
      have := nil_of_flatMap_nil herr' _ (List.contains_iff_mem.mp hstar)
      unfold resHdrErr at this
      simp only [beq_self_eq_true, if_true] at this
      cases cred with
      | false => rfl
      | true => simp at this
    subst hc
    decide
  | false =>
    cases hel : (names.foldl (resHdrStep cred) {}).set.elems with
    | nil =>
      have haceh : (Validate.responseHeaders cred names).2 = [] := by
        unfold Validate.responseHeaders
        simp only [hall, Bool.false_eq_true, if_false, SortedSet.size, hel, List.length_nil, Nat.lt_irrefl, decide_false]
      rw [haceh]
      cases cred <;> decide
    | cons x xs =>
      have hfacts : ∀ e ∈ (names.foldl (resHdrStep cred) {}).set.elems,
          e ≠ Validate.star ∧ isValid e = true ∧ e.lower = e ∧ goodRes e = true := by
        intro e he
        rcases (m1 e).mp he with h | ⟨n, _, hg, rfl⟩
        · cases h
        · unfold goodRes at hg
          simp only [Bool.and_eq_true, bne_iff_ne, ne_eq, Bool.not_eq_true'] at hg
          obtain ⟨⟨⟨⟨hns, hv⟩, hf⟩, hp⟩, hsafe⟩ := hg
          have hne : n.lower ≠ Validate.star := fun h0 => hns (lower_eq_star h0)
          refine ⟨hne, valid_lower hv, lower_idem n, ?_⟩
          unfold goodRes
          rw [lower_idem, hf, hp, hsafe, valid_lower hv]
          have : (n.lower != Validate.star) = true := by simpa using hne
          rw [this]; rfl
      have hsz : (names.foldl (resHdrStep cred) {}).set.size > 0 := by unfold SortedSet.size; rw [hel]; simp
      have haceh : (Validate.responseHeaders cred names).2 = Bytes.join comma (names.foldl (resHdrStep cred) {}).set.elems := by
        unfold Validate.responseHeaders
        simp only [hall, Bool.false_eq_true, if_false, hsz, decide_true, if_true]
      rw [haceh]
      have hne : (names.foldl (resHdrStep cred) {}).set.elems ≠ [] := by rw [hel]; simp
      rw [if_pos (join_ne_nil hne (fun n hn => (hfacts n hn).2.1))]
      rw [Browser.splitOn_join _ hne (fun n hn => Browser.valid_no_comma (hfacts n hn).2.1)]
      obtain ⟨e2, a2, m2⟩ := resHdr_fold cred (names.foldl (resHdrStep cred) {}).set.elems {} SortedSet.empty_exact
      have herrs : ((names.foldl (resHdrStep cred) {}).set.elems.foldl (resHdrStep cred) {}).errs = [] := by
        rw [resHdr_errs]
        simp only [List.nil_append]
        apply flatMap_nil_of
        intro e he
        obtain ⟨hns, hv, hlow, hg⟩ := hfacts e he
        unfold goodRes at hg
        simp only [Bool.and_eq_true, Bool.not_eq_true'] at hg
        unfold resHdrErr
        have h1 : (e == Validate.star) = false := by simpa using hns
        simp [h1, hv, hg.1.1.2, hg.1.2]
      have hall2 : ((names.foldl (resHdrStep cred) {}).set.elems.foldl (resHdrStep cred) {}).all = false := by
        rw [a2]
        simp only [Bool.false_or]
        cases hc : (names.foldl (resHdrStep cred) {}).set.elems.contains Validate.star with
        | false => rfl
        | true => exact absurd rfl (hfacts _ (List.contains_iff_mem.mp hc)).1
      have hset2 : ((names.foldl (resHdrStep cred) {}).set.elems.foldl (resHdrStep cred) {}).set = (names.foldl (resHdrStep cred) {}).set := by
        apply SortedSet.ext_members e2 e1
        intro y
        rw [m2]
        constructor
        · rintro (h | ⟨e, he, _, rfl⟩)
          · cases h
          · rw [(hfacts e he).2.2.1]; exact he
        · intro hy
          exact Or.inr ⟨y, hy, (hfacts y hy).2.2.2, (hfacts y hy).2.2.1.symm⟩
      unfold Validate.responseHeaders
      simp only [herrs, hall2, hset2, Bool.false_eq_true, if_false, hsz, decide_true, if_true]

end CfgRT
end Cors

namespace Cors
open Gen Validate Folds Headers
namespace CfgRT

/-- What `newConfig` renders for the request headers. -/
def renderReqHdrs (cred ast auth : Bool) (set : SortedSet) : List Bytes :=
  if !cred && ast && auth then [Validate.star, Facts.headers_Authorization]
  else if ast then [Validate.star]
  else if set.size > 0 then set.elems else []

theorem isAuth_authorization : isAuth Facts.headers_Authorization = true := by decide

theorem goodReq_not_auth {n : Bytes} (h : goodReq n = true) : n.lower ≠ Facts.headers_Authorization := by
  unfold goodReq at h
  simp only [Bool.and_eq_true, bne_iff_ne, ne_eq] at h
  exact h.1.1.2

theorem isAuth_lower {n : Bytes} (h : isAuth n = true) : n.lower = Facts.headers_Authorization := by
  unfold isAuth at h
  simp only [Bool.and_eq_true, beq_iff_eq] at h
  exact h.2

/-- **Request headers round trip**: same asterisk flag, same set, same pre-rendered Allow-Headers
value, and the same Authorization flag except under credentialed `*` (where the handler never
reads it). -/
theorem reqHdrs_roundtrip (cred : Bool) (names : List Bytes) (herr : (Validate.requestHeaders cred names).1 = []) :
    (Validate.requestHeaders cred (renderReqHdrs cred (Validate.requestHeaders cred names).2.1
        (Validate.requestHeaders cred names).2.2.1 (Validate.requestHeaders cred names).2.2.2.1)).1 = [] ∧
    (Validate.requestHeaders cred (renderReqHdrs cred (Validate.requestHeaders cred names).2.1
        (Validate.requestHeaders cred names).2.2.1 (Validate.requestHeaders cred names).2.2.2.1)).2.1 =
      (Validate.requestHeaders cred names).2.1 ∧
    (Validate.requestHeaders cred (renderReqHdrs cred (Validate.requestHeaders cred names).2.1
        (Validate.requestHeaders cred names).2.2.1 (Validate.requestHeaders cred names).2.2.2.1)).2.2.2 =
      (Validate.requestHeaders cred names).2.2.2 ∧
    (((Validate.requestHeaders cred names).2.1 && cred) = false →
      (Validate.requestHeaders cred (renderReqHdrs cred (Validate.requestHeaders cred names).2.1
        (Validate.requestHeaders cred names).2.2.1 (Validate.requestHeaders cred names).2.2.2.1)).2.2.1 =
      (Validate.requestHeaders cred names).2.2.1) := by
  obtain ⟨e1, a1, b1, m1⟩ := reqHdr_fold cred names {} SortedSet.empty_exact
  cases hast : (names.foldl (reqHdrStep cred) {}).asterisk with
  | true =>
    have hR : Validate.requestHeaders cred names =
        ((names.foldl (reqHdrStep cred) {}).errs, true, (names.foldl (reqHdrStep cred) {}).allowAuth, {}, []) := by
      unfold Validate.requestHeaders
      simp only [hast, Bool.not_true, Bool.false_and, Bool.false_eq_true, if_false]
    rw [hR]
    simp only []
    unfold renderReqHdrs
    cases cred with
    | false =>
      cases (names.foldl (reqHdrStep false) {}).allowAuth with
      | true => decide
      | false => decide
    | true =>
      simp only [Bool.not_true, Bool.false_and, Bool.false_eq_true, if_false, if_true]
      refine ⟨by decide, by decide, by decide, fun h => by simp at h⟩
  | false =>
    have hns : names.contains Validate.star = false := by rw [a1] at hast; simpa using hast
    have hmem := m1 rfl hns
    have hauth : (names.foldl (reqHdrStep cred) {}).allowAuth = names.any isAuth := by rw [b1]; rfl
    -- the result of the original validation
    have hR : Validate.requestHeaders cred names =
        ((names.foldl (reqHdrStep cred) {}).errs, false, names.any isAuth, (names.foldl (reqHdrStep cred) {}).set,
         if (names.foldl (reqHdrStep cred) {}).set.elems = [] then [] else [Bytes.join comma (names.foldl (reqHdrStep cred) {}).set.elems]) := by
      unfold Validate.requestHeaders
      simp only [hast, hauth, Bool.not_false, Bool.true_and]
      cases hel : (names.foldl (reqHdrStep cred) {}).set.elems with
      | nil =>
        have : (names.foldl (reqHdrStep cred) {}).set = {} := set_of_nil e1 hel
        simp [SortedSet.size, hel, this]
      | cons x xs => simp [SortedSet.size, hel]
    rw [hR]
    simp only []
    unfold renderReqHdrs
    simp only [Bool.and_false, Bool.false_and, Bool.false_eq_true, if_false]
    -- facts about the stored names
    have hfacts : ∀ e ∈ (names.foldl (reqHdrStep cred) {}).set.elems,
        e ≠ Validate.star ∧ isValid e = true ∧ e.lower = e ∧ (goodReq e = true ∨ e = Facts.headers_Authorization) := by
      intro e he
      rcases (hmem e).mp he with h | ⟨n, _, hg, rfl⟩ | ⟨_, _, rfl⟩
      · cases h
      · have hg' := hg
        unfold goodReq at hg
        simp only [Bool.and_eq_true, bne_iff_ne, ne_eq, Bool.not_eq_true'] at hg
        obtain ⟨⟨⟨⟨hns', hv⟩, hna⟩, hf⟩, hp⟩ := hg
        have hne : n.lower ≠ Validate.star := fun h0 => hns' (lower_eq_star h0)
        refine ⟨hne, valid_lower hv, lower_idem n, Or.inl ?_⟩
        unfold goodReq
        rw [lower_idem, hf, hp, valid_lower hv]
        have h1 : (n.lower != Validate.star) = true := by simpa using hne
        have h2 : (n.lower != Facts.headers_Authorization) = true := by simpa using hna
        rw [h1, h2]; rfl
      · exact ⟨by decide, by decide, by decide, Or.inr rfl⟩
    have hauthmem : names.any isAuth = true ↔ Facts.headers_Authorization ∈ (names.foldl (reqHdrStep cred) {}).set.elems := by
      rw [hmem]
      constructor
      · intro h; exact Or.inr (Or.inr ⟨rfl, h, rfl⟩)
      · rintro (h | ⟨n, _, hg, hx⟩ | ⟨_, h, _⟩)
        · cases h
        · exact absurd hx.symm (goodReq_not_auth hg)
        · exact h
    cases hel : (names.foldl (reqHdrStep cred) {}).set.elems with
    | nil =>
      simp only [SortedSet.size, hel, List.length_nil, Nat.lt_irrefl, decide_false, Bool.false_eq_true, if_false, if_true]
      have hno : names.any isAuth = false := by
        cases h : names.any isAuth with
        | false => rfl
        | true => have := hauthmem.mp h; rw [hel] at this; cases this
      have hs : (names.foldl (reqHdrStep cred) {}).set = {} := set_of_nil e1 hel
      rw [hno, hs]
      cases cred <;> decide
    | cons x xs =>
      have hsz : (names.foldl (reqHdrStep cred) {}).set.size > 0 := by unfold SortedSet.size; rw [hel]; simp
      have hne : (names.foldl (reqHdrStep cred) {}).set.elems ≠ [] := by rw [hel]; simp
      rw [← hel]
      rw [if_pos hsz, if_neg hne]
      obtain ⟨e2, a2, b2, m2⟩ := reqHdr_fold cred (names.foldl (reqHdrStep cred) {}).set.elems {} SortedSet.empty_exact
      have hns2 : (names.foldl (reqHdrStep cred) {}).set.elems.contains Validate.star = false := by
        cases hc : (names.foldl (reqHdrStep cred) {}).set.elems.contains Validate.star with
        | false => rfl
        | true => exact absurd rfl (hfacts _ (List.contains_iff_mem.mp hc)).1
      have hmem2 := m2 rfl hns2
      have herrs : ((names.foldl (reqHdrStep cred) {}).set.elems.foldl (reqHdrStep cred) {}).errs = [] := by
        rw [reqHdr_errs]
        simp only [List.nil_append]
        apply flatMap_nil_of
        intro e he
        obtain ⟨hns', hv, hlow, hg⟩ := hfacts e he
        unfold reqHdrErr
        have h1 : (e == Validate.star) = false := by simpa using hns'
        rcases hg with hg | hg
        · unfold goodReq at hg
          simp only [Bool.and_eq_true, Bool.not_eq_true'] at hg
          simp [h1, hv, hg.1.2, hg.2]
        · subst hg; decide
      have hast2 : ((names.foldl (reqHdrStep cred) {}).set.elems.foldl (reqHdrStep cred) {}).asterisk = false := by
        rw [a2, hns2]; rfl
      have hany2 : (names.foldl (reqHdrStep cred) {}).set.elems.any isAuth = names.any isAuth := by
        rw [Bool.eq_iff_iff, hauthmem]
        simp only [List.any_eq_true]
        constructor
        · rintro ⟨e, he, ha⟩
          have := isAuth_lower ha
          rw [(hfacts e he).2.2.1] at this
          rw [← this]; exact he
        · intro h; exact ⟨_, h, isAuth_authorization⟩
      have hauth2 : ((names.foldl (reqHdrStep cred) {}).set.elems.foldl (reqHdrStep cred) {}).allowAuth = names.any isAuth := by
        rw [b2, hany2]; rfl
      have hset2 : ((names.foldl (reqHdrStep cred) {}).set.elems.foldl (reqHdrStep cred) {}).set = (names.foldl (reqHdrStep cred) {}).set := by
        apply SortedSet.ext_members e2 e1
        intro y
        rw [hmem2]
        constructor
        · rintro (h | ⟨e, he, _, rfl⟩ | ⟨_, ha, rfl⟩)
          · cases h
          · rw [(hfacts e he).2.2.1]; exact he
          · rw [hany2] at ha; exact hauthmem.mp ha
        · intro hy
          rcases (hfacts y hy).2.2.2 with hg | hg
          · exact Or.inr (Or.inl ⟨y, hy, hg, (hfacts y hy).2.2.1.symm⟩)
          · subst hg
            exact Or.inr (Or.inr ⟨rfl, by rw [hany2]; exact hauthmem.mpr hy, rfl⟩)
      have hR2 : Validate.requestHeaders cred (names.foldl (reqHdrStep cred) {}).set.elems =
          ([], false, names.any isAuth, (names.foldl (reqHdrStep cred) {}).set,
           [Bytes.join comma (names.foldl (reqHdrStep cred) {}).set.elems]) := by
        unfold Validate.requestHeaders
        simp only [herrs, hast2, hauth2, hset2, Bool.not_false, Bool.true_and]
        have : ((names.foldl (reqHdrStep cred) {}).set.size != 0) = true := by
          simp only [bne_iff_ne, ne_eq]; omega
        rw [this]; rfl
      rw [hR2]
      exact ⟨rfl, rfl, rfl, fun _ => rfl⟩

end CfgRT
end Cors

namespace Cors
open Gen Validate Folds Headers
namespace CfgRT

/-- What `newConfig` renders for the max-age. -/
def renderMaxAge (acma : List Bytes) : Int :=
  match acma with
  | [] => 0
  | v :: _ => match Bytes.atoi v with
    | some n => if n != 0 then n else -1
    | none => -1

/-- **Max-age round trip.** -/
theorem maxAge_roundtrip (delta : Int) (acma : List Bytes) (h : Validate.maxAge delta = .ok acma) :
    Validate.maxAge (renderMaxAge acma) = .ok acma := by
  unfold Validate.maxAge at h
  have hdc : (Facts.cors_validateMaxAge_disableCaching : Int) = -1 := rfl
  have hub : (Facts.cors_validateMaxAge_upperBound : Int) = 86400 := rfl
  split at h
  · cases h
  · rename_i hrange
    simp only [hdc, hub, Bool.or_eq_true, decide_eq_true_eq, not_or, Int.not_lt] at hrange
    split at h
    · -- caching disabled
      simp only [Except.ok.injEq] at h
      subst h
      have : renderMaxAge [[48]] = -1 := by decide
      rw [this]
      rfl
    · split at h
      · simp only [Except.ok.injEq] at h
        subst h
        rfl
      · rename_i hne1 hne0
        simp only [Except.ok.injEq] at h
        subst h
        have hd1 : delta ≠ -1 := by simpa [hdc] using hne1
        have hd0 : delta ≠ 0 := by simpa using hne0
        have hpos : 1 ≤ delta := by omega
        have hn : (delta.toNat : Int) = delta := Int.toNat_of_nonneg (by omega)
        have hr : renderMaxAge [Bytes.itoa delta.toNat] = delta := by
          unfold renderMaxAge
          simp only [Bytes.atoi_itoa]
          have : (delta.toNat != 0) = true := by simp only [bne_iff_ne, ne_eq]; omega
          rw [this]
          simp only [if_true]
          exact hn
        rw [hr]
        unfold Validate.maxAge
        have h1 : ¬ ((delta < (Facts.cors_validateMaxAge_disableCaching : Int) || decide ((Facts.cors_validateMaxAge_upperBound : Int) < delta)) = true) := by
          simp only [hdc, hub, Bool.or_eq_true, decide_eq_true_eq, not_or, Int.not_lt]
          omega
        rw [if_neg h1, if_neg (by simpa [hdc] using hd1), if_neg (by simpa using hd0)]

end CfgRT
end Cors
