import CorsVerif.Model.IxTree
import CorsVerif.Proofs.IxTreeRefine
/-
  `slices.BinarySearch`, the algorithm itself.

  The model (list level and index level) treats `slices.BinarySearch(s, x)` as "the number of elements smaller
  than `x`, and whether the element at that position is `x`" (`Ix.lowerBound`, `Ix.bsearch`, `Ix.findPos`), which is
  what the library function returns *on a sorted slice*.  This file transcribes the library's loop

      n := len(x); i, j := 0, n
      for i < j { h := int(uint(i+j) >> 1); if cmp.Less(x[h], target) { i = h + 1 } else { j = h } }
      return i, i < n && x[i] == target

  and proves (a) for every slice, sorted or not, the result is a position in `[0, n]` and `found` implies `i < n` (so the
  index expressions that use it cannot go out of range whatever the slice holds), and (b) on a slice sorted by a
  transitive order it returns exactly `Ix.bsearch`.  Props/C17.lean instantiates (b) at the three searches of the radix
  tree (edge labels, schemes, port codes) under the proved tree invariant `Node.Inv`.
-/
namespace Cors
namespace Ix

/-- The `for i < j` loop; `p y` is `cmp.Less(y, target)`. -/
def bsLoop {α : Type} [Inhabited α] (p : α → Bool) (l : List α) : Nat → Nat → Nat → Nat
  | 0, i, _ => i
  | fuel + 1, i, j =>
    if i < j then
      let h := (i + j) / 2
      if p (l.getD h default) then bsLoop p l fuel (h + 1) j else bsLoop p l fuel i h
    else i

/-- `slices.BinarySearch(l, x)`. -/
def binarySearch {α : Type} [BEq α] [Inhabited α] (lt : α → α → Bool) (x : α) (l : List α) : Nat × Bool :=
  let i := bsLoop (fun y => lt y x) l (l.length + 1) 0 l.length
  (i, decide (i < l.length) && l.getD i default == x)

/-- (a) Whatever the slice holds, the loop stays inside `[i, j]`. -/
theorem bsLoop_range {α : Type} [Inhabited α] (p : α → Bool) (l : List α) :
    ∀ (fuel i j : Nat), i ≤ j → i ≤ bsLoop p l fuel i j ∧ bsLoop p l fuel i j ≤ j := by
  intro fuel
  induction fuel with
  | zero => intro i j h; exact ⟨Nat.le_refl _, h⟩
  | succ fuel ih =>
    intro i j hij
    simp only [bsLoop]
    by_cases hlt : i < j
    · simp only [hlt, if_true]
      have hh1 : i ≤ (i + j) / 2 := by omega
      have hh2 : (i + j) / 2 < j := by omega
      split
      · have := ih ((i + j) / 2 + 1) j (by omega)
        exact ⟨by omega, this.2⟩
      · have := ih i ((i + j) / 2) hh1
        exact ⟨this.1, by omega⟩
    · simp only [hlt, if_false]
      exact ⟨Nat.le_refl _, hij⟩

/-- (a) `slices.BinarySearch` returns a position in `[0, len]`, and `found` implies a position inside the slice. -/
theorem binarySearch_range {α : Type} [BEq α] [Inhabited α] (lt : α → α → Bool) (x : α) (l : List α) :
    (binarySearch lt x l).1 ≤ l.length ∧ ((binarySearch lt x l).2 = true → (binarySearch lt x l).1 < l.length) := by
  unfold binarySearch
  refine ⟨(bsLoop_range _ l _ 0 l.length (Nat.zero_le _)).2, ?_⟩
  intro h
  simp only [Bool.and_eq_true, decide_eq_true_eq] at h
  exact h.1

/-- The loop finds the partition point of a predicate that holds on a prefix and nowhere else. -/
theorem bsLoop_partition {α : Type} [Inhabited α] (p : α → Bool) (l : List α) (k : Nat)
    (hlow : ∀ idx, idx < k → p (l.getD idx default) = true)
    (hhigh : ∀ idx, k ≤ idx → idx < l.length → p (l.getD idx default) = false) :
    ∀ (fuel i j : Nat), i ≤ k → k ≤ j → j ≤ l.length → j - i < fuel → bsLoop p l fuel i j = k := by
  intro fuel
  induction fuel with
  | zero => intro i j _ _ _ h; omega
  | succ fuel ih =>
    intro i j hik hkj hjn hf
    simp only [bsLoop]
    by_cases hlt : i < j
    · simp only [hlt, if_true]
      have hh1 : i ≤ (i + j) / 2 := by omega
      have hh2 : (i + j) / 2 < j := by omega
      cases hp : p (l.getD ((i + j) / 2) default) with
      | true =>
        simp only [if_true]
        have hk : (i + j) / 2 < k := by
          apply Classical.byContradiction
          intro hn
          have := hhigh ((i + j) / 2) (by omega) (by omega)
          rw [hp] at this; cases this
        exact ih _ _ (by omega) hkj hjn (by omega)
      | false =>
        simp only [Bool.false_eq_true, if_false]
        have hk : k ≤ (i + j) / 2 := by
          apply Classical.byContradiction
          intro hn
          have := hlow ((i + j) / 2) (by omega)
          rw [hp] at this; cases this
        exact ih _ _ hik hk (by omega) (by omega)
    · simp only [hlt, if_false]
      omega

/-- The lower bound is the partition point of `(· < x)` on a list sorted by a transitive order. -/
theorem lowerBound_low {α : Type} [Inhabited α] (lt : α → α → Bool) (x : α) (l : List α) :
    ∀ idx, idx < lowerBound lt x l → lt (l.getD idx default) x = true := by
  induction l with
  | nil => intro idx h; simp [lowerBound] at h
  | cons y ys ih =>
    intro idx h
    simp only [lowerBound] at h
    by_cases hy : lt y x = true
    · simp only [hy, if_true] at h
      cases idx with
      | zero => simpa using hy
      | succ n => simpa using ih n (by omega)
    · simp [hy] at h

theorem lowerBound_high {α : Type} [Inhabited α] (lt : α → α → Bool) (x : α) (l : List α)
    (htrans : ∀ a b c, lt a b = true → lt b c = true → lt a c = true) (hs : l.Pairwise (fun a b => lt a b = true)) :
    ∀ idx, lowerBound lt x l ≤ idx → idx < l.length → lt (l.getD idx default) x = false := by
  induction l with
  | nil => intro idx _ h; simp at h
  | cons y ys ih =>
    intro idx hle hlen
    rw [List.pairwise_cons] at hs
    simp only [lowerBound] at hle
    by_cases hy : lt y x = true
    · simp only [hy, if_true] at hle
      cases idx with
      | zero => omega
      | succ n =>
        simp only [List.getD_cons_succ]
        exact ih hs.2 n (by omega) (by simpa using hlen)
    · have hyf : lt y x = false := by simpa using hy
      cases idx with
      | zero => simpa using hyf
      | succ n =>
        simp only [List.getD_cons_succ]
        have hn : n < ys.length := by simpa using hlen
        have hmem : ys.getD n default ∈ ys := by
          rw [List.getD_eq_getElem?_getD, List.getElem?_eq_getElem hn]; exact List.getElem_mem hn
        have hyz := hs.1 _ hmem
        cases hz : lt (ys.getD n default) x with
        | false => rfl
        | true => rw [htrans _ _ _ hyz hz] at hyf; cases hyf

/-- (b) On a slice sorted by a transitive order, `slices.BinarySearch` is the modelled search. -/
theorem binarySearch_sorted {α : Type} [BEq α] [Inhabited α] (lt : α → α → Bool) (x : α) (l : List α)
    (htrans : ∀ a b c, lt a b = true → lt b c = true → lt a c = true) (hs : l.Pairwise (fun a b => lt a b = true)) :
    binarySearch lt x l = bsearch lt x l := by
  unfold binarySearch bsearch
  have hk := bsLoop_partition (fun y => lt y x) l (lowerBound lt x l) (lowerBound_low lt x l)
    (lowerBound_high lt x l htrans hs) (l.length + 1) 0 l.length (Nat.zero_le _) (lowerBound_le lt x l) (Nat.le_refl _) (by omega)
  simp only [hk]

end Ix
end Cors

namespace Cors
namespace Ix
open Node

theorem findPos_none_of_not_mem {α : Type} [BEq α] [LawfulBEq α] (x : α) (l : List α) (h : x ∉ l) : findPos x l = none := by
  induction l with
  | nil => rfl
  | cons y ys ih =>
    simp only [findPos]
    have hyx : (y == x) = false := by
      cases hb : y == x with
      | false => rfl
      | true => exact absurd (by rw [eq_of_beq hb]; exact List.mem_cons_self) h
    rw [hyx, ih (fun hm => h (List.mem_cons_of_mem _ hm))]
    rfl

/-- On a strictly sorted slice "the first position holding `x`" (`findPos`, the reading of `slices.BinarySearch` used by
`node.contains` / `Tree.Contains` in the index-level model) is the lower bound when the element there is `x`. -/
theorem findPos_sorted {α : Type} [BEq α] [LawfulBEq α] [Inhabited α] (lt : α → α → Bool) (x : α) (l : List α)
    (hirr : ∀ a, lt a a = false) (hs : l.Pairwise (fun a b => lt a b = true)) :
    findPos x l = cond (bsearch lt x l).2 (some (bsearch lt x l).1) none := by
  induction l with
  | nil => simp [findPos, bsearch, lowerBound]
  | cons y ys ih =>
    rw [List.pairwise_cons] at hs
    simp only [findPos, bsearch, lowerBound]
    by_cases hyx : (y == x) = true
    · have : y = x := eq_of_beq hyx
      subst this
      simp [hirr]
    · have hyxf : (y == x) = false := by simpa using hyx
      simp only [hyxf, Bool.false_eq_true, if_false]
      by_cases hlt : lt y x = true
      · simp only [hlt, if_true, List.length_cons, List.getD_cons_succ]
        rw [ih hs.2]
        simp only [bsearch]
        have hdec : decide (lowerBound lt x ys + 1 < ys.length + 1) = decide (lowerBound lt x ys < ys.length) := by simp
        rw [hdec]
        cases (decide (lowerBound lt x ys < ys.length) && ys.getD (lowerBound lt x ys) default == x) <;> rfl
      · have hltf : lt y x = false := by simpa using hlt
        simp only [hltf, Bool.false_eq_true, if_false, List.length_cons, List.getD_cons_zero, hyxf, Bool.and_false]
        have hnm : x ∉ ys := fun hm => by rw [hs.1 x hm] at hltf; cases hltf
        rw [findPos_none_of_not_mem x ys hnm]
        rfl

theorem natLt_trans (a b c : Nat) (h1 : natLt a b = true) (h2 : natLt b c = true) : natLt a c = true := by
  unfold natLt at *; simp only [decide_eq_true_eq] at *; omega
theorem intLt_trans (a b c : Int) (h1 : intLt a b = true) (h2 : intLt b c = true) : intLt a c = true := by
  unfold intLt at *; simp only [decide_eq_true_eq] at *; omega

/-- The edge labels of a node that satisfies the tree invariant are strictly increasing. -/
theorem edges_sorted : ∀ (K : List (Nat × Node)), KidsInv K → (K.map Prod.fst).Pairwise (fun a b => natLt a b = true)
  | [], _ => List.Pairwise.nil
  | (l, c) :: rest, h => by
    obtain ⟨_, _, hlt, hrest⟩ := KidsInv_cons.mp h
    simp only [List.map_cons]
    rw [List.pairwise_cons]
    refine ⟨?_, edges_sorted rest hrest⟩
    intro a ha
    obtain ⟨e, he, rfl⟩ := List.mem_map.mp ha
    simp [natLt, hlt e he]

/-- **`slices.BinarySearch(n.edges, label)`** under the tree invariant: the library's loop returns the modelled result,
and the modelled "first position holding the label" is that position. -/
theorem binarySearch_edges (n : Node) (h : Inv n) (label : Nat) :
    binarySearch natLt label (n.kids.map Prod.fst) = bsearch natLt label (n.kids.map Prod.fst) ∧
    findPos label (n.kids.map Prod.fst) =
      cond (bsearch natLt label (n.kids.map Prod.fst)).2 (some (bsearch natLt label (n.kids.map Prod.fst)).1) none := by
  cases n with
  | mk suf S K =>
    have hK := (Inv_mk.mp h).2
    have hs := edges_sorted K hK
    exact ⟨binarySearch_sorted natLt label _ natLt_trans hs, findPos_sorted natLt label _ (by intro a; simp [natLt]) hs⟩

/-- **`slices.BinarySearch(n.schemes, scheme)`** under the tree invariant. -/
theorem binarySearch_schemes (n : Node) (h : Inv n) (scheme : Bytes) :
    binarySearch Bytes.lt scheme (n.schemes.map Prod.fst) = bsearch Bytes.lt scheme (n.schemes.map Prod.fst) ∧
    findPos scheme (n.schemes.map Prod.fst) =
      cond (bsearch Bytes.lt scheme (n.schemes.map Prod.fst)).2 (some (bsearch Bytes.lt scheme (n.schemes.map Prod.fst)).1) none := by
  cases n with
  | mk suf S K =>
    have hS := (Inv_mk.mp h).1
    exact ⟨binarySearch_sorted Bytes.lt scheme _ (fun a b c h1 h2 => Bytes.lt_trans h1 h2) hS.keys,
      findPos_sorted Bytes.lt scheme _ Bytes.lt_irrefl hS.keys⟩

end Ix
end Cors

namespace Cors
namespace Ix
open Node

/-- The partition lemma for a slice sorted by a relation `R` along which `(· < x)` is downward closed
(non-strictly sorted port lists: `R` is `≤`). -/
theorem lowerBound_high' {α : Type} [Inhabited α] (lt : α → α → Bool) (R : α → α → Prop) (x : α) (l : List α)
    (hmono : ∀ a b, R a b → lt b x = true → lt a x = true) (hs : l.Pairwise R) :
    ∀ idx, lowerBound lt x l ≤ idx → idx < l.length → lt (l.getD idx default) x = false := by
  induction l with
  | nil => intro idx _ h; simp at h
  | cons y ys ih =>
    intro idx hle hlen
    rw [List.pairwise_cons] at hs
    simp only [lowerBound] at hle
    by_cases hy : lt y x = true
    · simp only [hy, if_true] at hle
      cases idx with
      | zero => omega
      | succ n =>
        simp only [List.getD_cons_succ]
        exact ih hs.2 n (by omega) (by simpa using hlen)
    · have hyf : lt y x = false := by simpa using hy
      cases idx with
      | zero => simpa using hyf
      | succ n =>
        simp only [List.getD_cons_succ]
        have hn : n < ys.length := by simpa using hlen
        have hmem : ys.getD n default ∈ ys := by
          rw [List.getD_eq_getElem?_getD, List.getElem?_eq_getElem hn]; exact List.getElem_mem hn
        cases hz : lt (ys.getD n default) x with
        | false => rfl
        | true => rw [hmono _ _ (hs.1 _ hmem) hz] at hyf; cases hyf

/-- `slices.BinarySearch(ports, port)` on a port list sorted by `≤` (duplicates allowed): the library's loop returns the
lower bound, and `found` is membership — what `node.contains` is modelled with (`ports.contains`). -/
theorem binarySearch_ports (ports : List Int) (hs : SortedInts ports) (port : Int) :
    binarySearch intLt port ports = bsearch intLt port ports ∧ (bsearch intLt port ports).2 = ports.contains port := by
  constructor
  · unfold binarySearch bsearch
    have hk := bsLoop_partition (fun y => intLt y port) ports (lowerBound intLt port ports) (lowerBound_low intLt port ports)
      (lowerBound_high' intLt (· ≤ ·) port ports (by
        intro a b hab hb
        unfold intLt at *
        simp only [decide_eq_true_eq] at *
        omega) hs) (ports.length + 1) 0 ports.length (Nat.zero_le _) (lowerBound_le intLt port ports) (Nat.le_refl _) (by omega)
    simp only [hk]
  · unfold SortedInts at hs
    induction ports with
    | nil => simp [bsearch, lowerBound]
    | cons y ys ih =>
      rw [List.pairwise_cons] at hs
      simp only [bsearch, lowerBound, intLt]
      by_cases hy : y < port
      · simp only [hy, decide_true, if_true, List.length_cons, List.getD_cons_succ]
        have := ih hs.2
        simp only [bsearch] at this
        have hdec : decide (lowerBound (fun a b => decide (a < b)) port ys + 1 < ys.length + 1) =
            decide (lowerBound (fun a b => decide (a < b)) port ys < ys.length) := by simp
        have hne : (port == y) = false := by simp; omega
        rw [List.contains_cons, hne, Bool.false_or, ← this]
        unfold intLt
        rw [hdec]
      · simp only [hy, decide_false, Bool.false_eq_true, if_false, List.length_cons, List.getD_cons_zero]
        rw [List.contains_cons]
        by_cases he : y = port
        · subst he; simp
        · have h1 : (y == port) = false := by simpa using he
          have h2 : (port == y) = false := by simpa using (fun h => he h.symm)
          have h3 : ys.contains port = false := by
            cases hc : ys.contains port with
            | false => rfl
            | true =>
              have hm : port ∈ ys := by simpa using hc
              have := hs.1 port hm
              omega
          have h3' : port ∉ ys := by simpa using h3
          simp [h1, h2, h3']

end Ix
end Cors

namespace Cors
namespace Ix
open Node

/-- `Sub n m`: `m` is `n` or one of its descendants. -/
inductive Sub : Node → Node → Prop where
  | refl (n : Node) : Sub n n
  | kid {n c m : Node} {l : Nat} (h : (l, c) ∈ n.kids) (hs : Sub c m) : Sub n m

theorem KidsInv_mem : ∀ (K : List (Nat × Node)) (e : Nat × Node), KidsInv K → e ∈ K → Inv e.2
  | [], _, _, h => by cases h
  | (l, c) :: rest, e, hK, he => by
    obtain ⟨_, hc, _, hrest⟩ := KidsInv_cons.mp hK
    rcases List.mem_cons.mp he with rfl | he
    · exact hc
    · exact KidsInv_mem rest e hrest he

/-- The tree invariant holds at every node below a node at which it holds. -/
theorem Inv_sub {n m : Node} (h : Inv n) (hs : Sub n m) : Inv m := by
  induction hs with
  | refl => exact h
  | @kid n c m l hmem _ ih =>
    cases n with
    | mk suf S K => exact ih (KidsInv_mem K (l, c) (Inv_mk.mp h).2 hmem)

theorem SchemesOK_ports_mem {S : List (Bytes × List Int)} (h : SchemesOK S) (i : Nat) (hi : i < S.length) :
    SortedInts ((S.map Prod.snd).getD i default) := by
  have : (S.map Prod.snd).getD i default = (S.getD i default).2 := getD_map' Prod.snd S i default default hi
  rw [this]
  have hmem : S.getD i default ∈ S := by
    rw [List.getD_eq_getElem?_getD, List.getElem?_eq_getElem hi]; exact List.getElem_mem hi
  exact (h.ports _ hmem).sorted

end Ix
end Cors

/-! ### `Tree.Contains` with the library's binary search in it -/
namespace Cors
namespace Ix
open Node

/-- `node.contains` with `slices.BinarySearch` spelled out (three searches). -/
def nodeContainsBS (schemes : List (Bytes × List Int)) (scheme : Bytes) (port : Int) (wild : Bool) : Chk Bool :=
  let r := binarySearch Bytes.lt scheme (schemes.map Prod.fst)     -- i, found := slices.BinarySearch(n.schemes, scheme)
  if !r.2 then pure false
  else do
    let ports ← idxG (schemes.map Prod.snd) r.1                     -- ports := n.ports[i]
    if (binarySearch intLt (Node.code port wild) ports).2 then pure true     -- _, found = slices.BinarySearch(ports, port)
    else pure (binarySearch intLt (Node.wildCode wild) ports).2              -- _, found = slices.BinarySearch(ports, wildcardPort)

theorem nodeContainsBS_eq (S : List (Bytes × List Int)) (hS : SchemesOK S) (scheme : Bytes) (port : Int) (wild : Bool) :
    nodeContainsBS S scheme port wild = nodeContains S scheme port wild := by
  unfold nodeContainsBS nodeContains
  have hb := binarySearch_sorted Bytes.lt scheme (S.map Prod.fst) (fun a b c h1 h2 => Bytes.lt_trans h1 h2) hS.keys
  have hf := findPos_sorted Bytes.lt scheme (S.map Prod.fst) Bytes.lt_irrefl hS.keys
  rw [hb, hf]
  simp only []
  cases hfound : (bsearch Bytes.lt scheme (S.map Prod.fst)).2 with
  | false => simp only [Bool.not_false, if_true, cond_false]
  | true =>
    simp only [Bool.not_true, Bool.false_eq_true, if_false, cond_true]
    have hlt : (bsearch Bytes.lt scheme (S.map Prod.fst)).1 < S.length := by
      unfold bsearch at hfound ⊢
      simp only [Bool.and_eq_true, decide_eq_true_eq, List.length_map] at hfound
      exact hfound.1
    rw [idxG_ok _ _ (by simpa using hlt)]
    simp only [bind, Except.bind]
    have hsorted := SchemesOK_ports_mem hS _ hlt
    have h1 := binarySearch_ports _ hsorted (Node.code port wild)
    have h2 := binarySearch_ports _ hsorted (Node.wildCode wild)
    rw [h1.1, h1.2, h2.1, h2.2]
    cases ((S.map Prod.snd).getD (bsearch Bytes.lt scheme (S.map Prod.fst)).1 default).contains (code port wild) <;> simp

/-- The `for` of `Tree.Contains` with `slices.BinarySearch` spelled out. -/
def treeLoopBS : Nat → Node → Bytes → Bytes → Int → Chk Bool
  | 0, _, _, _, _ => .error ()
  | fuel + 1, n, host, scheme, port => do
    match ← lastByte host with
    | none => nodeContainsBS n.schemes scheme port false
    | some label =>
      if ← nodeContainsBS n.schemes scheme port true then return true
      let r := binarySearch natLt label (n.kids.map Prod.fst)      -- i, found := slices.BinarySearch(n.edges, label)
      if !r.2 then return false
      let c ← idxG (n.kids.map Prod.snd) r.1                       -- n = &n.children[i]
      let (prefixOfHost, _, suf) ← splitAtCommonSuffix host c.suf.reverse
      if suf.length != c.suf.length then return false
      treeLoopBS fuel c prefixOfHost scheme port

theorem kid_mem (K : List (Nat × Node)) (i : Nat) (h : i < K.length) :
    (((K.map Prod.fst).getD i default), ((K.map Prod.snd).getD i default)) ∈ K := by
  rw [getD_map' Prod.fst K i default default h, getD_map' Prod.snd K i default default h]
  rw [List.getD_eq_getElem?_getD, List.getElem?_eq_getElem h]
  exact List.getElem_mem h

theorem treeLoopBS_eq : ∀ (fuel : Nat) (n : Node) (host scheme : Bytes) (port : Int), Inv n →
    treeLoopBS fuel n host scheme port = treeLoop fuel n host scheme port := by
  intro fuel
  induction fuel with
  | zero => intro n host scheme port _; rfl
  | succ fuel ih =>
    intro n host scheme port hinv
    cases n with
    | mk nsuf S K =>
      obtain ⟨hS, hK⟩ := Inv_mk.mp hinv
      simp only [treeLoopBS, treeLoop, Node.schemes, Node.kids]
      rw [nodeContainsBS_eq S hS, nodeContainsBS_eq S hS]
      have hb := (binarySearch_edges (.mk nsuf S K) hinv)
      simp only [Node.kids] at hb
      cases hl : lastByte host with
      | error e => rfl
      | ok lb =>
        simp only [bind, Except.bind]
        cases lb with
        | none => rfl
        | some label =>
          simp only []
          cases hnc : nodeContains S scheme port true with
          | error e => rfl
          | ok b =>
            simp only []
            cases b with
            | true => rfl
            | false =>
              simp only [Bool.false_eq_true, if_false]
              simp only [(hb label).1, (hb label).2]
              cases hfound : (bsearch natLt label (K.map Prod.fst)).2 with
              | false => rfl
              | true =>
                simp only [Bool.not_true, Bool.false_eq_true, if_false, cond_true]
                have hlt : (bsearch natLt label (K.map Prod.fst)).1 < K.length := by
                  unfold bsearch at hfound ⊢
                  simp only [Bool.and_eq_true, decide_eq_true_eq, List.length_map] at hfound
                  exact hfound.1
                rw [idxG_ok _ _ (by simpa using hlt)]
                simp only []
                have hcinv : Inv ((K.map Prod.snd).getD (bsearch natLt label (K.map Prod.fst)).1 default) :=
                  KidsInv_mem K _ hK (kid_mem K _ hlt)
                cases splitAtCommonSuffix host ((K.map Prod.snd).getD (bsearch natLt label (K.map Prod.fst)).1 default).suf.reverse with
                | error e => rfl
                | ok t =>
                  obtain ⟨a, b, c⟩ := t
                  simp only []
                  split
                  · rfl
                  · exact ih _ _ _ _ hcinv

/-- `Tree.Contains` with the library's binary searches in it. -/
def treeContainsBS (t : Node) (o : Origin) : Chk Bool :=
  treeLoopBS (depth t + 1) t o.host.value o.scheme o.port

/-- **Refinement.** On every tree that satisfies the invariant, `Tree.Contains` — index expressions checked, binary
searches run as the library runs them — returns `.ok` of the list-level model's answer. -/
theorem treeContainsBS_refines (t : Node) (h : Inv t) (o : Origin) : treeContainsBS t o = .ok (Tree.contains t o) := by
  unfold treeContainsBS
  rw [treeLoopBS_eq _ t _ _ _ h]
  exact treeContains_refines t o

end Ix
end Cors

/-! ### `headers.Check` with the library's binary search in it -/
namespace Cors
namespace Ix
open Gen

/-- `SortedSet.IndexAfter` with `slices.BinarySearch` spelled out. -/
def indexAfterBS (set : SortedSet) (n : Int) (e : Bytes) : Chk (Option Int) := do
  if set.maxLen < e.length then return none
  let start := n + 1
  let tail ← sliceG set.elems start (lenG set.elems)         -- set.elems[start:]
  let r := binarySearch Bytes.lt e tail                       -- i, found := slices.BinarySearch(set.elems[start:], e)
  if !r.2 then return none
  return some (start + r.1)

theorem indexAfterBS_eq (set : SortedSet) (h : set.WF) (n : Int) (e : Bytes) : indexAfterBS set n e = indexAfter set n e := by
  unfold indexAfterBS indexAfter
  by_cases hm : set.maxLen < e.length
  · simp [hm]
  · simp only [hm, if_false]
    simp only [bind, Except.bind]
    cases hs : sliceG set.elems (n + 1) (lenG set.elems) with
    | error u => rfl
    | ok tail =>
      simp only []
      have hsub : tail.Pairwise (fun a b => Bytes.lt a b = true) := by
        unfold sliceG at hs
        split at hs
        · simp only [Except.ok.injEq] at hs
          rw [← hs]
          exact List.Pairwise.sublist ((List.drop_sublist _ _).trans (List.take_sublist _ _)) h.sorted
        · cases hs
      have hb := binarySearch_sorted Bytes.lt e tail (fun a b c h1 h2 => Bytes.lt_trans h1 h2) hsub
      have hf := findPos_sorted Bytes.lt e tail Bytes.lt_irrefl hsub
      have hfi : SortedSet.findIdx e tail = findPos e tail := by
        clear hs hsub hb hf
        induction tail with
        | nil => rfl
        | cons x xs ih => simp only [SortedSet.findIdx, findPos, ih]
      rw [hb, hfi, hf]
      cases (bsearch Bytes.lt e tail).2 <;> rfl

/-- The inner `for` of `Check` with `indexAfterBS`. -/
def checkLineBS (set : SortedSet) (maxLen : Nat) : Nat → Bytes → Int × Nat → Chk (Option (Int × Nat))
  | 0, _, _ => .error ()
  | fuel + 1, acrh, (pos, empties) => do
    let (name, rest, commaFound) ← cutAtComma acrh maxLen
    match ← trimOWS name Facts.headers_MaxOWSBytes with
    | none => return none
    | some name =>
      if name.isEmpty then
        let e := empties + 1
        if e > Facts.headers_MaxEmptyElements then return none
        else if !commaFound then return some (pos, e)
        else checkLineBS set maxLen fuel rest (pos, e)
      else
        match ← indexAfterBS set pos name with
        | none => return none
        | some i =>
          if !commaFound then return some (i, empties)
          else checkLineBS set maxLen fuel rest (i, empties)

theorem checkLineBS_eq (set : SortedSet) (h : set.WF) (maxLen : Nat) :
    ∀ (fuel : Nat) (acrh : Bytes) (st : Int × Nat), checkLineBS set maxLen fuel acrh st = checkLine set maxLen fuel acrh st := by
  intro fuel
  induction fuel with
  | zero => intro acrh st; rfl
  | succ fuel ih =>
    intro acrh st
    obtain ⟨pos, empties⟩ := st
    simp only [checkLineBS, checkLine, indexAfterBS_eq set h, ih]
    rfl

def checkLinesBS (set : SortedSet) (maxLen : Nat) : List Bytes → Int × Nat → Chk Bool
  | [], _ => pure true
  | l :: ls, st => do
    match ← checkLineBS set maxLen (l.length + 1) l st with
    | none => return false
    | some st' => checkLinesBS set maxLen ls st'

theorem checkLinesBS_eq (set : SortedSet) (h : set.WF) (maxLen : Nat) :
    ∀ (lines : List Bytes) (st : Int × Nat), checkLinesBS set maxLen lines st = checkLines set maxLen lines st := by
  intro lines
  induction lines with
  | nil => intro st; rfl
  | cons l ls ih => intro st; simp only [checkLinesBS, checkLines, checkLineBS_eq set h, ih]; rfl

/-- `headers.Check` with every index expression checked and every `slices.BinarySearch` run as the library's loop. -/
def checkBS (set : SortedSet) (acrhs : List Bytes) : Chk Bool :=
  let maxLen := Facts.headers_MaxOWSBytes + set.maxLen + Facts.headers_MaxOWSBytes + 1
  checkLinesBS set maxLen acrhs (-1, 0)

/-- **Refinement.** On every well-formed set, `headers.Check` as the code runs it returns `.ok` of the list-level model's verdict. -/
theorem checkBS_refines (set : SortedSet) (h : set.WF) (acrhs : List Bytes) : checkBS set acrhs = .ok (Headers.check set acrhs) := by
  unfold checkBS
  rw [checkLinesBS_eq set h]
  exact check_refines set acrhs

end Ix
end Cors
