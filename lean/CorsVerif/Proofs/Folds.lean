import CorsVerif.Proofs.Sets
import CorsVerif.Model.Config
/-
  What the three set-building folds of config.go compute, independently of the order of the
  entries: flags as disjunctions over the list, sets by their members.
-/
namespace Cors
open Gen Validate

namespace Folds

/-- An entry of `Methods` that ends up in the allowed-method set. -/
def goodMethod (n : Bytes) : Bool :=
  n != Validate.star && Methods.isValid n && !Methods.isSafelisted (Methods.normalize n) && !Methods.isForbidden (Methods.normalize n)

theorem methods_fold (names : List Bytes) (st : MState) (hst : st.set.Exact) :
    (names.foldl methodStep st).set.Exact ∧
    (names.foldl methodStep st).any = (st.any || names.contains Validate.star) ∧
    ∀ x, x ∈ (names.foldl methodStep st).set.elems ↔
      x ∈ st.set.elems ∨ ∃ n ∈ names, goodMethod n = true ∧ x = Methods.normalize n := by
  induction names generalizing st with
  | nil => exact ⟨hst, by simp, fun x => by simp⟩
  | cons n ns ih =>
    rw [List.foldl_cons]
    have hstep : (methodStep st n).set.Exact ∧ (methodStep st n).any = (st.any || n == Validate.star) ∧
        ∀ x, x ∈ (methodStep st n).set.elems ↔ x ∈ st.set.elems ∨ (goodMethod n = true ∧ x = Methods.normalize n) := by
      unfold methodStep goodMethod
      by_cases h1 : (n == Validate.star) = true
      · have hn : n = Validate.star := by simpa using h1
        subst hn
        simp [hst]
      · have h1' : (n == Validate.star) = false := by simpa using h1
        simp only [h1', Bool.false_eq_true, if_false, Bool.or_false, bne, Bool.not_false, Bool.true_and]
        by_cases h2 : Methods.isValid n = true
        · simp only [h2, Bool.not_true, Bool.false_eq_true, if_false, Bool.true_and]
          by_cases h3 : Methods.isSafelisted (Methods.normalize n) = true
          · simp [h3, hst]
          · have h3' : Methods.isSafelisted (Methods.normalize n) = false := by simpa using h3
            simp only [h3', Bool.false_eq_true, if_false, Bool.not_false, Bool.true_and]
            by_cases h4 : Methods.isForbidden (Methods.normalize n) = true
            · simp [h4, hst]
            · have h4' : Methods.isForbidden (Methods.normalize n) = false := by simpa using h4
              simp only [h4', Bool.false_eq_true, if_false, Bool.not_false, true_and]
              refine ⟨SortedSet.add_exact _ hst _, fun x => ?_⟩
              rw [SortedSet.mem_add]
              constructor
              · rintro (h | h)
                · exact Or.inr h
                · exact Or.inl h
              · rintro (h | h)
                · exact Or.inr h
                · exact Or.inl h
        · have h2' : Methods.isValid n = false := by simpa using h2
          simp [h2', hst]
    obtain ⟨e1, a1, m1⟩ := hstep
    obtain ⟨e2, a2, m2⟩ := ih (methodStep st n) e1
    refine ⟨e2, ?_, fun x => ?_⟩
    · rw [a2, a1]
      rw [List.contains_cons, Bool.or_assoc, BEq.comm (a := n)]
    · rw [m2, m1]
      simp only [List.mem_cons, exists_eq_or_imp]
      constructor
      · rintro ((h | h) | h)
        · exact Or.inl h
        · exact Or.inr (Or.inl h)
        · exact Or.inr (Or.inr h)
      · rintro (h | h | h)
        · exact Or.inl (Or.inl h)
        · exact Or.inl (Or.inr h)
        · exact Or.inr h

/-- An entry of `ResponseHeaders` that ends up in the exposed-header set. -/
def goodRes (n : Bytes) : Bool :=
  n != Validate.star && Headers.isValid n && !Headers.isForbiddenResponseHeaderName n.lower
  && !Headers.isProhibitedResponseHeaderName n.lower && !Headers.isSafelistedResponseHeaderName n.lower

theorem resHdr_fold (cred : Bool) (names : List Bytes) (st : EState) (hst : st.set.Exact) :
    (names.foldl (resHdrStep cred) st).set.Exact ∧
    (names.foldl (resHdrStep cred) st).all = (st.all || names.contains Validate.star) ∧
    ∀ x, x ∈ (names.foldl (resHdrStep cred) st).set.elems ↔
      x ∈ st.set.elems ∨ ∃ n ∈ names, goodRes n = true ∧ x = n.lower := by
  induction names generalizing st with
  | nil => exact ⟨hst, by simp, fun x => by simp⟩
  | cons n ns ih =>
    rw [List.foldl_cons]
    have hstep : (resHdrStep cred st n).set.Exact ∧ (resHdrStep cred st n).all = (st.all || n == Validate.star) ∧
        ∀ x, x ∈ (resHdrStep cred st n).set.elems ↔ x ∈ st.set.elems ∨ (goodRes n = true ∧ x = n.lower) := by
      unfold resHdrStep goodRes
      by_cases h1 : (n == Validate.star) = true
      · have hn : n = Validate.star := by simpa using h1
        subst hn
        simp [hst]
      · have h1' : (n == Validate.star) = false := by simpa using h1
        simp only [h1', Bool.false_eq_true, if_false, Bool.or_false, bne, Bool.not_false, Bool.true_and]
        by_cases h2 : Headers.isValid n = true
        · simp only [h2, Bool.not_true, Bool.false_eq_true, if_false, Bool.true_and]
          by_cases h3 : Headers.isForbiddenResponseHeaderName n.lower = true
          · simp [h3, hst]
          · have h3' : Headers.isForbiddenResponseHeaderName n.lower = false := by simpa using h3
            simp only [h3', Bool.false_eq_true, if_false, Bool.not_false, Bool.true_and]
            by_cases h4 : Headers.isProhibitedResponseHeaderName n.lower = true
            · simp [h4, hst]
            · have h4' : Headers.isProhibitedResponseHeaderName n.lower = false := by simpa using h4
              simp only [h4', Bool.false_eq_true, if_false, Bool.not_false, Bool.true_and]
              by_cases h5 : Headers.isSafelistedResponseHeaderName n.lower = true
              · simp [h5, hst]
              · have h5' : Headers.isSafelistedResponseHeaderName n.lower = false := by simpa using h5
                simp only [h5', Bool.false_eq_true, if_false, Bool.not_false, true_and]
                refine ⟨SortedSet.add_exact _ hst _, fun x => ?_⟩
                rw [SortedSet.mem_add]
                constructor
                · rintro (h | h)
                  · exact Or.inr h
                  · exact Or.inl h
                · rintro (h | h)
                  · exact Or.inr h
                  · exact Or.inl h
        · have h2' : Headers.isValid n = false := by simpa using h2
          simp [h2', hst]
    obtain ⟨e1, a1, m1⟩ := hstep
    obtain ⟨e2, a2, m2⟩ := ih (resHdrStep cred st n) e1
    refine ⟨e2, ?_, fun x => ?_⟩
    · rw [a2, a1]
      rw [List.contains_cons, Bool.or_assoc, BEq.comm (a := n)]
    · rw [m2, m1]
      simp only [List.mem_cons, exists_eq_or_imp]
      constructor
      · rintro ((h | h) | h)
        · exact Or.inl h
        · exact Or.inr (Or.inl h)
        · exact Or.inr (Or.inr h)
      · rintro (h | h | h)
        · exact Or.inl (Or.inl h)
        · exact Or.inl (Or.inr h)
        · exact Or.inr h

end Folds
end Cors

namespace Cors
open Gen Validate
namespace Folds

/-- An entry of `RequestHeaders` that is a spelling of `Authorization`. -/
def isAuth (n : Bytes) : Bool :=
  n != Validate.star && Headers.isValid n && n.lower == Facts.headers_Authorization

/-- An entry of `RequestHeaders`, other than Authorization, that ends up in the allowed set. -/
def goodReq (n : Bytes) : Bool :=
  n != Validate.star && Headers.isValid n && n.lower != Facts.headers_Authorization
  && !Headers.isForbiddenRequestHeaderName n.lower && !Headers.isProhibitedRequestHeaderName n.lower

theorem reqHdr_step (cred : Bool) (st : RState) (n : Bytes) (hst : st.set.Exact) :
    (reqHdrStep cred st n).set.Exact ∧
    (reqHdrStep cred st n).asterisk = (st.asterisk || n == Validate.star) ∧
    (reqHdrStep cred st n).allowAuth = (st.allowAuth || isAuth n) ∧
    (st.asterisk = false → ∀ x, x ∈ (reqHdrStep cred st n).set.elems ↔
      x ∈ st.set.elems ∨ (goodReq n = true ∧ x = n.lower) ∨
      (st.allowAuth = false ∧ isAuth n = true ∧ x = Facts.headers_Authorization)) := by
  unfold reqHdrStep isAuth goodReq
  by_cases h1 : (n == Validate.star) = true
  · have hn : n = Validate.star := by simpa using h1
    subst hn
    simp [hst]
  · have h1' : (n == Validate.star) = false := by simpa using h1
    simp only [h1', Bool.false_eq_true, if_false, Bool.or_false, bne, Bool.not_false, Bool.true_and]
    by_cases h2 : Headers.isValid n = true
    · simp only [h2, Bool.not_true, Bool.false_eq_true, if_false, Bool.true_and]
      by_cases h3 : (n.lower == Facts.headers_Authorization) = true
      · have h3e : n.lower = Facts.headers_Authorization := by simpa using h3
        simp only [h3, if_true, Bool.not_true, Bool.false_and, Bool.false_eq_true, false_and, false_or]
        by_cases h4 : st.allowAuth = true
        · simp [h4, hst]
        · have h4' : st.allowAuth = false := by simpa using h4
          simp only [h4', Bool.false_eq_true, if_false, Bool.false_or, true_and]
          by_cases h5 : (!st.asterisk || !cred) = true
          · simp only [h5, if_true]
            refine ⟨SortedSet.add_exact _ hst _, trivial, trivial, fun _ x => ?_⟩
            rw [SortedSet.mem_add, h3e]
            constructor
            · rintro (h | h)
              · exact Or.inr h
              · exact Or.inl h
            · rintro (h | h)
              · exact Or.inr h
              · exact Or.inl h
          · have h5' : (!st.asterisk || !cred) = false := by simpa using h5
            simp only [h5', Bool.false_eq_true, if_false]
            refine ⟨hst, trivial, trivial, fun ha => ?_⟩
            rw [ha] at h5
            simp at h5
      · have h3' : (n.lower == Facts.headers_Authorization) = false := by simpa using h3
        simp only [h3', Bool.false_eq_true, if_false, Bool.or_false, Bool.not_false, Bool.true_and, false_and, and_false, or_false]
        by_cases h4 : Headers.isForbiddenRequestHeaderName n.lower = true
        · simp [h4, hst]
        · have h4' : Headers.isForbiddenRequestHeaderName n.lower = false := by simpa using h4
          simp only [h4', Bool.false_eq_true, if_false, Bool.not_false, Bool.true_and]
          by_cases h5 : Headers.isProhibitedRequestHeaderName n.lower = true
          · simp [h5, hst]
          · have h5' : Headers.isProhibitedRequestHeaderName n.lower = false := by simpa using h5
            simp only [h5', Bool.false_eq_true, if_false, Bool.not_false, true_and]
            refine ⟨SortedSet.add_exact _ hst _, fun _ x => ?_⟩
            rw [SortedSet.mem_add]
            constructor
            · rintro (h | h)
              · exact Or.inr h
              · exact Or.inl h
            · rintro (h | h)
              · exact Or.inr h
              · exact Or.inl h
    · have h2' : Headers.isValid n = false := by simpa using h2
      simp [h2', hst]

theorem reqHdr_fold (cred : Bool) (names : List Bytes) (st : RState) (hst : st.set.Exact) :
    (names.foldl (reqHdrStep cred) st).set.Exact ∧
    (names.foldl (reqHdrStep cred) st).asterisk = (st.asterisk || names.contains Validate.star) ∧
    (names.foldl (reqHdrStep cred) st).allowAuth = (st.allowAuth || names.any isAuth) ∧
    (st.asterisk = false → names.contains Validate.star = false →
      ∀ x, x ∈ (names.foldl (reqHdrStep cred) st).set.elems ↔
        x ∈ st.set.elems ∨ (∃ n ∈ names, goodReq n = true ∧ x = n.lower) ∨
        (st.allowAuth = false ∧ names.any isAuth = true ∧ x = Facts.headers_Authorization)) := by
  induction names generalizing st with
  | nil => exact ⟨hst, by simp, by simp, fun _ _ x => by simp⟩
  | cons n ns ih =>
    rw [List.foldl_cons]
    obtain ⟨e1, a1, b1, m1⟩ := reqHdr_step cred st n hst
    obtain ⟨e2, a2, b2, m2⟩ := ih (reqHdrStep cred st n) e1
    refine ⟨e2, ?_, ?_, fun h0 hc x => ?_⟩
    · rw [a2, a1, List.contains_cons, Bool.or_assoc, BEq.comm (a := n)]
    · rw [b2, b1, List.any_cons, Bool.or_assoc]
    · rw [List.contains_cons, Bool.or_eq_false_iff] at hc
      have hns : (n == Validate.star) = false := by rw [BEq.comm]; exact hc.1
      have ha0 : (reqHdrStep cred st n).asterisk = false := by rw [a1, h0, hns]; rfl
      rw [m2 ha0 hc.2, m1 h0, b1]
      simp only [List.mem_cons, exists_eq_or_imp, List.any_cons, Bool.or_eq_false_iff, Bool.or_eq_true]
      constructor
      · rintro ((h | h | h) | h | h)
        · exact Or.inl h
        · exact Or.inr (Or.inl (Or.inl h))
        · exact Or.inr (Or.inr ⟨h.1, Or.inl h.2.1, h.2.2⟩)
        · exact Or.inr (Or.inl (Or.inr h))
        · exact Or.inr (Or.inr ⟨h.1.1, Or.inr h.2.1, h.2.2⟩)
      · rintro (h | (h | h) | ⟨h1, h2 | h2, h3⟩)
        · exact Or.inl (Or.inl h)
        · exact Or.inl (Or.inr (Or.inl h))
        · exact Or.inr (Or.inl h)
        · exact Or.inl (Or.inr (Or.inr ⟨h1, h2, h3⟩))
        · by_cases hb : isAuth n = true
          · exact Or.inl (Or.inr (Or.inr ⟨h1, hb, h3⟩))
          · exact Or.inr (Or.inr ⟨⟨h1, by simpa using hb⟩, h2, h3⟩)

end Folds
end Cors

namespace Cors
open Gen Validate
namespace Folds

/-! ### the errors of the three folds, entry by entry -/

def methodErr (n : Bytes) : List CfgErr :=
  if n == Validate.star then []
  else if !Methods.isValid n then [.method n .invalid]
  else if Methods.isSafelisted (Methods.normalize n) then []
  else if Methods.isForbidden (Methods.normalize n) then [.method (Methods.normalize n) .forbidden]
  else []

theorem methods_errs (names : List Bytes) (st : MState) :
    (names.foldl methodStep st).errs = st.errs ++ names.flatMap methodErr := by
  induction names generalizing st with
  | nil => simp
  | cons n ns ih =>
    rw [List.foldl_cons, ih, List.flatMap_cons, ← List.append_assoc]
    congr 1
    unfold methodStep methodErr
    split
    · simp
    · split
      · rfl
      · simp only []
        split
        · simp
        · split
          · rfl
          · simp

def reqHdrErr (n : Bytes) : List CfgErr :=
  if n == Validate.star then []
  else if !Headers.isValid n then [.headerName n false .invalid]
  else if n.lower == Facts.headers_Authorization then []
  else if Headers.isForbiddenRequestHeaderName n.lower then [.headerName n false .forbidden]
  else if Headers.isProhibitedRequestHeaderName n.lower then [.headerName n false .prohibited]
  else []

theorem reqHdr_errs (cred : Bool) (names : List Bytes) (st : RState) :
    (names.foldl (reqHdrStep cred) st).errs = st.errs ++ names.flatMap reqHdrErr := by
  induction names generalizing st with
  | nil => simp
  | cons n ns ih =>
    rw [List.foldl_cons, ih, List.flatMap_cons, ← List.append_assoc]
    congr 1
    unfold reqHdrStep reqHdrErr
    split
    · simp
    · split
      · rfl
      · simp only []
        split
        · split
          · simp
          · split <;> simp
        · split
          · rfl
          · split
            · rfl
            · simp

def resHdrErr (cred : Bool) (n : Bytes) : List CfgErr :=
  if n == Validate.star then (if cred then [.wildcardRespHdr] else [])
  else if !Headers.isValid n then [.headerName n true .invalid]
  else if Headers.isForbiddenResponseHeaderName n.lower then [.headerName n true .forbidden]
  else if Headers.isProhibitedResponseHeaderName n.lower then [.headerName n true .prohibited]
  else []

theorem resHdr_errs (cred : Bool) (names : List Bytes) (st : EState) :
    (names.foldl (resHdrStep cred) st).errs = st.errs ++ names.flatMap (resHdrErr cred) := by
  induction names generalizing st with
  | nil => simp
  | cons n ns ih =>
    rw [List.foldl_cons, ih, List.flatMap_cons, ← List.append_assoc]
    congr 1
    unfold resHdrStep resHdrErr
    split
    · rfl
    · split
      · rfl
      · simp only []
        split
        · rfl
        · split
          · rfl
          · split <;> simp

end Folds
end Cors
