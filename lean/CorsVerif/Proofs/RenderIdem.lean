import CorsVerif.Proofs.RoundTrip
import CorsVerif.Proofs.Accept
/-
  Parsing the rendering of an accepted pattern gives the same pattern again — also for the one
  form whose rendering is not the string it was parsed from: an IPv4 address written in brackets.
-/
namespace Cors
open Gen Pat Node RoundTrip Spec Accept

namespace RenderIdem

theorem spanUpTo_all (p : Nat → Bool) (n : Nat) (s : Bytes) : (Lex.spanUpTo p n s).1.all p = true := by
  induction n generalizing s with
  | zero => simp [Lex.spanUpTo]
  | succ n ih =>
    cases s with
    | nil => simp [Lex.spanUpTo]
    | cons b t =>
      simp only [Lex.spanUpTo]
      split
      · rename_i hb
        cases hsp : Lex.spanUpTo p n t with
        | mk l r =>
          have := ih t
          rw [hsp] at this
          simp only [List.all_cons, Bool.and_eq_true]
          exact ⟨hb, this⟩
      · simp

/-- The scheme lexer only looks at the scheme and at the byte that follows it. -/
theorem parseScheme_reparse {s scheme r0 : Bytes} (h : Lex.parseScheme s = some (scheme, r0)) (r : Bytes)
    (hr : r.head?.all (fun c => !Lex.isSubsequentSchemeByte c) = true) :
    Lex.parseScheme (scheme ++ r) = some (scheme, r) := by
  unfold Lex.parseScheme at h
  cases s with
  | nil => simp at h
  | cons b t =>
    simp only [] at h
    split at h
    · cases h
    · rename_i hb
      cases hsp : Lex.spanUpTo Lex.isSubsequentSchemeByte (Facts.origins_maxSchemeLen - 1) t with
      | mk l r' =>
        rw [hsp] at h
        simp only [Option.some.injEq, Prod.mk.injEq] at h
        obtain ⟨rfl, rfl⟩ := h
        have hall := spanUpTo_all Lex.isSubsequentSchemeByte (Facts.origins_maxSchemeLen - 1) t
        have hlen := spanUpTo_length Lex.isSubsequentSchemeByte (Facts.origins_maxSchemeLen - 1) t
        rw [hsp] at hall hlen
        simp only [List.cons_append, Lex.parseScheme]
        rw [if_neg hb, spanUpTo_exact _ _ l r hall hlen hr]

theorem octetOK_doc {f : Bytes} (h : octetOK f = true) : docOctet f = true := by
  unfold octetOK at h
  unfold docOctet
  have hd : f.all Spec.isDigit = f.all Bytes.isDigitB := by
    apply List.all_congr rfl
    intro x
    rfl
  rw [hd]
  exact h

/-- A bracketed host that is accepted went through the IP branch. -/
theorem bracket_inv {ext : Ext} {value rest : Bytes} {kind : Kind}
    (h : parseHostPattern ext (91 :: value ++ 93 :: rest) = .ok (value, kind, rest)) :
    ∃ lb, ipVerdict ext value = .ok lb ∧ kind = if lb then .loopbackIP else .nonLoopbackIP := by
  rw [List.cons_append] at h
  unfold parseHostPattern at h
  simp only [] at h
  have hpk : peekKind (91 :: (value ++ 93 :: rest)) = .domain := by
    unfold peekKind
    rw [if_neg]
    simp [Bytes.hasPrefix, Facts.origins_peekKind_wildcardSeq]
  rw [hpk] at h
  have hho : hostOnly (91 :: (value ++ 93 :: rest)) Kind.domain = 91 :: (value ++ 93 :: rest) := by
    simp [hostOnly]
  rw [hho] at h
  cases hf : Lex.fastParseHost (91 :: (value ++ 93 :: rest)) with
  | none => simp [hf] at h
  | some hr =>
    obtain ⟨host, r⟩ := hr
    simp only [hf] at h
    have hk : (Kind.domain == Kind.subdomains) = false := by decide
    simp only [hk, Bool.false_and, Bool.false_eq_true, if_false] at h
    rcases fastParseHost_cases hf with ⟨hstr, hip⟩ | ⟨hstr, _, hbytes⟩
    · rw [hip] at h
      simp only [if_true] at h
      cases hv : ipVerdict ext host.value with
      | bad => simp [hv] at h
      | prohibited => simp [hv] at h
      | ok lb =>
        simp only [hv, Except.ok.injEq, Prod.mk.injEq] at h
        obtain ⟨h1, h2, _⟩ := h
        rw [h1] at hv
        exact ⟨lb, hv, h2.symm⟩
    · -- not the bracket branch: the host would have to start with `[`, which is no host byte
      exfalso
      cases hval : host.value with
      | nil =>
        -- an empty host is never accepted
        rw [hval] at h
        by_cases hip : host.assumeIP = true
        · rw [hip] at h
          simp only [if_true] at h
          have : ipVerdict ext [] = .bad := by simp [ipVerdict, firstIPMark]
          simp [this] at h
        · have hip' : host.assumeIP = false := by simpa using hip
          rw [hip'] at h
          simp only [Bool.false_eq_true, if_false] at h
          have : idnaOK ext [] = false := by simp [idnaOK, hasXnLabel, Bytes.splitOn, Bytes.hasPrefix, xnDash, plainIdnaOK]
          simp [this] at h
      | cons c t =>
        rw [hval] at hstr hbytes
        simp only [List.cons_append, List.cons.injEq] at hstr
        have hc := hbytes c List.mem_cons_self
        rw [← hstr.1] at hc
        revert hc
        decide

theorem join_splitOn (c : Nat) (s : Bytes) : Bytes.join c (Bytes.splitOn c s) = s := by
  induction s with
  | nil => rfl
  | cons a t ih =>
    simp only [Bytes.splitOn]
    split
    · rename_i hac
      have : a = c := by simpa using hac
      subst this
      cases hsp : Bytes.splitOn a t with
      | nil => exact absurd hsp (splitOn_ne_nil a t)
      | cons x xs =>
        rw [hsp] at ih
        simp only [Bytes.join, List.nil_append]
        rw [ih]
    · cases hsp : Bytes.splitOn c t with
      | nil => exact absurd hsp (splitOn_ne_nil c t)
      | cons x xs =>
        rw [hsp] at ih
        simp only []
        cases xs with
        | nil =>
          simp only [Bytes.join] at ih ⊢
          rw [ih]
        | cons y ys =>
          simp only [Bytes.join, List.cons_append] at ih ⊢
          rw [ih]

/-- Without a colon, an accepted IP host is a dotted quad. -/
theorem ipVerdict_v4 {ext : Ext} {value : Bytes} {lb : Bool} (h : ipVerdict ext value = .ok lb) (h58 : (58 : Nat) ∉ value) :
    ∃ a b c d, value = Bytes.join 46 [a, b, c, d] ∧ docOctet a = true ∧ docOctet b = true ∧ docOctet c = true ∧
      docOctet d = true ∧ lb = (a == [49, 50, 55]) := by
  have hmark : firstIPMark value ≠ some 58 := by
    intro hm
    apply h58
    clear h
    induction value with
    | nil => simp [firstIPMark] at hm
    | cons x t ih =>
      simp only [firstIPMark] at hm
      split at hm
      · simp only [Option.some.injEq] at hm
        rw [hm]; exact List.mem_cons_self
      · exact List.mem_cons_of_mem _ (ih (fun hh => h58 (List.mem_cons_of_mem _ hh)) hm)
  unfold ipVerdict at h
  split at h
  · -- the IPv4 branch
    cases hp : parseIPv4 value with
    | none => simp [hp] at h
    | some lb' =>
      simp only [hp, IPVerdict.ok.injEq] at h
      subst h
      unfold parseIPv4 at hp
      split at hp
      · rename_i a b c d hsplit
        split at hp
        · rename_i hok
          simp only [Bool.and_eq_true] at hok
          simp only [Option.some.injEq] at hp
          refine ⟨a, b, c, d, ?_, octetOK_doc hok.1.1.1, octetOK_doc hok.1.1.2, octetOK_doc hok.1.2, octetOK_doc hok.2, hp.symm⟩
          rw [← hsplit, join_splitOn]
        · cases hp
      · cases hp
  · rename_i hm
    exact absurd hm hmark
  · cases h

/-- The rendering of an accepted pattern is the string it was parsed from, except that an IPv4
address written in brackets is rendered without them. -/
theorem render_form {ext : Ext} {s : Bytes} {p : Pattern} (h : ParsedAs ext s p) (hwf : p.WF) :
    renderOf p = s ∨
    (∃ rest rest3, Lex.parseScheme s = some (p.scheme, rest) ∧
      parseHostPattern ext (91 :: p.value ++ 93 :: rest3) = .ok (p.value, p.kind, rest3) ∧
      (58 : Nat) ∉ p.value ∧ (rest3 = [] ∨ ∃ t, rest3 = 58 :: t) ∧
      renderOf p = p.scheme ++ Facts.origins_schemeHostSep ++ p.value ++ rest3 ∧
      ((rest3 = [] ∧ p.port = 0) ∨
       (∃ rest4, Bytes.cutPrefix rest3 [Facts.origins_hostPortSep] = some rest4 ∧ parsePortPattern rest4 = some (p.port, [])))) := by
  obtain ⟨rest, hps, rest2, hcp, rest3, hhp, hport⟩ := h.scheme
  have hs1 := (parseScheme_append hps).1
  have hs2 := cutPrefix_some hcp
  have hportStr : rest3 = (if p.port = 0 then [] else if p.port = 65536 then [Facts.origins_hostPortSep] ++ Facts.origins_portWildcard
      else [Facts.origins_hostPortSep] ++ Bytes.itoa p.port) := by
    rcases hport with ⟨h3, h0⟩ | ⟨rest4, hc4, hpp⟩
    · rw [h3, h0]; rfl
    · have h4 := cutPrefix_some hc4
      rcases parsePortPattern_inv hpp with ⟨hr, hp⟩ | ⟨hr, hp1, hp2⟩
      · rw [h4, hr, hp]; rfl
      · rw [h4, hr]
        have h0 : p.port ≠ 0 := by omega
        have h1 : p.port ≠ 65536 := by omega
        simp [h0, h1]
  have hrest3 : rest3 = [] ∨ ∃ t, rest3 = 58 :: t := by
    rw [hportStr]
    split
    · exact Or.inl rfl
    · split
      · exact Or.inr ⟨_, rfl⟩
      · exact Or.inr ⟨_, rfl⟩
  rcases parseHostPattern_split hhp with ⟨hstr, hnc, _⟩ | ⟨hnk, hstr⟩
  · -- the plain form: the rendering is the string (no bracket can occur: `hbr` of render_eq_raw is vacuous here,
    -- but it is simpler to redo the two lines than to show that)
    left
    unfold renderOf
    by_cases hk : p.kind = .subdomains
    · obtain ⟨base, hv⟩ := hwf.wild hk
      have hkey : treeKey p = ((46 :: base).reverse, true) := by unfold treeKey; rw [hv]; rfl
      rw [hkey]
      simp only [List.reverse_reverse]
      rw [renderEntry_eq _ _ _ _ hwf.port]
      have hnc' : (46 :: base).contains Facts.origins_hostPortSep = false := by
        rw [hv] at hnc
        simp only [List.mem_cons, not_or] at hnc
        cases hcc : (46 :: base).contains Facts.origins_hostPortSep with
        | false => rfl
        | true =>
          have := List.contains_iff_mem.mp hcc
          simp only [Facts.origins_hostPortSep, List.mem_cons] at this
          rcases this with h | h
          · omega
          · exact absurd h hnc.2.2
      rw [hnc']
      simp only [if_true, Bool.false_eq_true, if_false]
      rw [hs1, hs2, hstr, hv, ← hportStr]
      simp [Facts.origins_subdomainWildcard]
    · have hplain := hwf.plain hk
      rw [treeKey_plain hplain]
      simp only [List.reverse_reverse]
      rw [renderEntry_eq _ _ _ _ hwf.port]
      simp only [Bool.false_eq_true, if_false, List.append_nil]
      have hnc' : p.value.contains Facts.origins_hostPortSep = false := by
        cases hcc : p.value.contains Facts.origins_hostPortSep with
        | false => rfl
        | true => exact absurd (List.contains_iff_mem.mp hcc) hnc
      rw [hnc']
      simp only [Bool.false_eq_true, if_false]
      rw [hs1, hs2, hstr, ← hportStr]
      simp
  · by_cases h58 : (58 : Nat) ∈ p.value
    · exact Or.inl (render_eq_raw h hwf (fun _ => h58))
    · right
      refine ⟨rest, rest3, hps, ?_, h58, hrest3, ?_, hport⟩
      · rw [← hstr]; exact hhp
      · unfold renderOf
        have hplain := hwf.plain hnk
        rw [treeKey_plain hplain]
        simp only [List.reverse_reverse]
        rw [renderEntry_eq _ _ _ _ hwf.port]
        simp only [Bool.false_eq_true, if_false, List.append_nil]
        have hnc' : p.value.contains Facts.origins_hostPortSep = false := by
          cases hcc : p.value.contains Facts.origins_hostPortSep with
          | false => rfl
          | true => exact absurd (List.contains_iff_mem.mp hcc) h58
        rw [hnc']
        simp only [Bool.false_eq_true, if_false]
        rw [← hportStr]

/-- **Parsing the rendering of an accepted pattern gives the same pattern** — whatever the string it
was parsed from looked like (an IPv4 address in brackets is rendered without them). -/
theorem parse_render (ext : Ext) {s : Bytes} {p : Pattern} (hwf : p.WF) (h : parsePattern ext s = .ok p) :
    parsePattern ext (renderOf p) = .ok p := by
  have hpa := parsePattern_inv h
  rcases render_form hpa hwf with heq | ⟨rest, rest3, hps, hhp, h58, hrest3, hrender, hport⟩
  · rw [heq]; exact h
  · obtain ⟨lb, hv, hkind⟩ := bracket_inv hhp
    obtain ⟨a, b, c, d, hval, ha, hb, hc, hd, hlb⟩ := ipVerdict_v4 hv h58
    have hstops : Stops rest3 := by
      rcases hrest3 with h0 | ⟨t, ht⟩
      · exact Or.inl h0
      · rw [ht]; exact stops_colon t
    have hhost : parseHostPattern ext (p.value ++ rest3) = .ok (p.value, p.kind, rest3) := by
      rw [hval, parseHostPattern_v4 ext a b c d ha hb hc hd rest3 hstops, hkind, hlb]
    rw [hrender]
    have hsep : Facts.origins_schemeHostSep = [58, 47, 47] := rfl
    have hstr : p.scheme ++ Facts.origins_schemeHostSep ++ p.value ++ rest3 = p.scheme ++ (58 :: 47 :: 47 :: (p.value ++ rest3)) := by
      rw [hsep]; simp
    rw [hstr]
    have hmem : (58 : Nat) ∈ p.scheme ++ (58 :: 47 :: 47 :: (p.value ++ rest3)) := by simp
    have hns : (p.scheme ++ (58 :: 47 :: 47 :: (p.value ++ rest3)) == Pat.star ||
        p.scheme ++ (58 :: 47 :: 47 :: (p.value ++ rest3)) == Pat.null) = false := by
      simp only [Bool.or_eq_false_iff, beq_eq_false_iff_ne, ne_eq]
      constructor
      · intro h0; rw [h0] at hmem; revert hmem; decide
      · intro h0; rw [h0] at hmem; revert hmem; decide
    unfold parsePattern
    rw [if_neg (by rw [hns]; simp)]
    rw [parseScheme_reparse hps _ (by simp only [List.head?_cons, Option.all_some]; decide)]
    simp only []
    have hnf : (p.scheme == file) = false := by simpa using hpa.notFile
    rw [if_neg (by rw [hnf]; simp)]
    have hcut : Bytes.cutPrefix (58 :: 47 :: 47 :: (p.value ++ rest3)) Facts.origins_schemeHostSep = some (p.value ++ rest3) := by
      simp [Facts.origins_schemeHostSep, Bytes.cutPrefix]
    rw [hcut]
    simp only []
    rw [hhost]
    simp only []
    have hhttps : ((p.kind == .loopbackIP || p.kind == .nonLoopbackIP) && p.scheme == Facts.origins_schemeHTTPS) = false := by
      cases hc : ((p.kind == .loopbackIP || p.kind == .nonLoopbackIP) && p.scheme == Facts.origins_schemeHTTPS) with
      | false => rfl
      | true =>
        exfalso
        apply hpa.httpsNoIP
        simp only [Bool.and_eq_true, Bool.or_eq_true, beq_iff_eq] at hc
        exact hc
    rw [hhttps]
    simp only [Bool.false_eq_true, if_false]
    rcases hport with ⟨h3, h0⟩ | ⟨rest4, hc4, hpp⟩
    · rw [h3]
      simp only [List.isEmpty_nil, if_true]
      cases p
      simp only [] at h0
      subst h0
      rfl
    · have hne : rest3.isEmpty = false := by
        have := cutPrefix_some hc4
        rw [this]; rfl
      rw [hne]
      simp only [Bool.false_eq_true, if_false]
      rw [hc4]
      simp only []
      rw [hpp]
      simp only [List.isEmpty_nil, Bool.not_true, Bool.false_eq_true, if_false]
      rw [hpa.noDefaultPort]
      simp only [Bool.false_eq_true, if_false]

end RenderIdem
end Cors
