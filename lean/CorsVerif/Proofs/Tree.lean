import CorsVerif.Proofs.Ports
/-
  The radix tree: `Tree.Insert` adds exactly the coverage of the inserted entry to what
  `Tree.Contains` accepts, for every tree satisfying the invariant, every key and every query.
-/
namespace Cors
namespace Node
open Gen

/-! ### Prefix helpers -/

theorem stripPrefix_some_iff {p s r : Bytes} : stripPrefix p s = some r ↔ s = p ++ r := by
  induction p generalizing s with
  | nil => simp [stripPrefix, eq_comm]
  | cons a p ih =>
    cases s with
    | nil => simp [stripPrefix]
    | cons b s =>
      simp only [stripPrefix]
      by_cases hab : a = b
      · subst hab; simp [ih]
      · have : ¬ b = a := fun h => hab h.symm
        simp [hab, this]

theorem stripPrefix_append (a b s : Bytes) :
    stripPrefix (a ++ b) s = (stripPrefix a s).bind (stripPrefix b) := by
  induction a generalizing s with
  | nil => simp [stripPrefix]
  | cons x a ih =>
    cases s with
    | nil => simp [stripPrefix]
    | cons y s =>
      simp only [List.cons_append, stripPrefix]
      split
      · exact ih s
      · rfl

theorem stripPrefix_self_append (p r : Bytes) : stripPrefix p (p ++ r) = some r :=
  stripPrefix_some_iff.mpr rfl

theorem stripPrefix_cons_ne {a b : Nat} (p s : Bytes) (h : a ≠ b) : stripPrefix (a :: p) (b :: s) = none := by
  simp [stripPrefix, h]

/-- `splitAtCommonSuffix` (reversed view): common prefix and the two remainders, whose heads differ. -/
theorem splitCommon_spec (a b : Bytes) :
    a = (splitCommon a b).2.2 ++ (splitCommon a b).1 ∧ b = (splitCommon a b).2.2 ++ (splitCommon a b).2.1 ∧
    ∀ x y ra rb, (splitCommon a b).1 = x :: ra → (splitCommon a b).2.1 = y :: rb → x ≠ y := by
  induction a generalizing b with
  | nil => simp [splitCommon]
  | cons x xs ih =>
    cases b with
    | nil => simp [splitCommon]
    | cons y ys =>
      simp only [splitCommon]
      by_cases hxy : x = y
      · subst hxy
        simp only [beq_self_eq_true, if_true]
        obtain ⟨h1, h2, h3⟩ := ih ys
        cases hsp : splitCommon xs ys with
        | mk ra rest =>
          obtain ⟨rb, c⟩ := rest
          rw [hsp] at h1 h2 h3
          simp only [] at h1 h2 h3 ⊢
          refine ⟨by rw [h1]; simp, by rw [h2]; simp, h3⟩
      · have : (x == y) = false := by simpa using hxy
        simp only [this, Bool.false_eq_true, if_false, List.nil_append, true_and]
        intro a' b' ra rb h1 h2
        simp at h1 h2
        rw [← h1.1, ← h2.1]; exact hxy

/-! ### What an entry covers -/

/-- The coverage of the entry `(key s, scheme, port, wildcardSubs)` on a query `(host h, scheme', port')`:
same scheme, same or wildcard port, and the key equals the host (exact entry) or is a strict prefix
of it (wildcard-subdomains entry). Keys and hosts are in the reversed view. -/
def entryCovers (s sch : Bytes) (p : Int) (w : Bool) (h sch' : Bytes) (p' : Int) : Bool :=
  sch == sch' && ((if w then decide (s.length < h.length) && s.isPrefixOf h else s == h) && (p == p' || p == 65536))

theorem isPrefixOf_append_cancel (pre s h : Bytes) : (pre ++ s).isPrefixOf (pre ++ h) = s.isPrefixOf h := by
  induction pre with
  | nil => rfl
  | cons a pre ih => simp [List.isPrefixOf, ih]

theorem entryCovers_cancel (pre s sch : Bytes) (p : Int) (w : Bool) (h sch' : Bytes) (p' : Int) :
    entryCovers (pre ++ s) sch p w (pre ++ h) sch' p' = entryCovers s sch p w h sch' p' := by
  unfold entryCovers
  rw [isPrefixOf_append_cancel]
  have h1 : (pre ++ s == pre ++ h) = (s == h) := by
    rw [Bool.eq_iff_iff]; simp
  have h2 : decide ((pre ++ s).length < (pre ++ h).length) = decide (s.length < h.length) := by
    simp only [List.length_append]
    rw [Bool.eq_iff_iff]; simp
  rw [h1, h2]

theorem isPrefixOf_iff {s h : Bytes} : s.isPrefixOf h = true ↔ ∃ r, h = s ++ r := by
  rw [List.isPrefixOf_iff_prefix]
  constructor
  · rintro ⟨r, hr⟩; exact ⟨r, hr.symm⟩
  · rintro ⟨r, hr⟩; exact ⟨r, hr.symm⟩

/-- If the key is not a prefix of the host, the entry covers nothing of it. -/
theorem entryCovers_not_prefix (s sch : Bytes) (p : Int) (w : Bool) (h sch' : Bytes) (p' : Int)
    (hn : s.isPrefixOf h = false) : entryCovers s sch p w h sch' p' = false := by
  unfold entryCovers
  cases w
  · have : (s == h) = false := by
      simp only [beq_eq_false_iff_ne, ne_eq]
      intro heq; subst heq
      have : s.isPrefixOf s = true := isPrefixOf_iff.mpr ⟨[], by simp⟩
      rw [this] at hn; cases hn
    simp [this]
  · simp [hn]

theorem isPrefixOf_of_strip_none {p h : Bytes} (hs : stripPrefix p h = none) : p.isPrefixOf h = false := by
  cases hp : p.isPrefixOf h with
  | false => rfl
  | true =>
    obtain ⟨r, hr⟩ := isPrefixOf_iff.mp hp
    rw [hr, stripPrefix_self_append] at hs; cases hs

theorem isPrefixOf_append_left_false {p x h : Bytes} (hn : p.isPrefixOf h = false) : (p ++ x).isPrefixOf h = false := by
  cases hp : (p ++ x).isPrefixOf h with
  | false => rfl
  | true =>
    obtain ⟨r, hr⟩ := isPrefixOf_iff.mp hp
    have : p.isPrefixOf h = true := isPrefixOf_iff.mpr ⟨x ++ r, by rw [hr]; simp⟩
    rw [this] at hn; cases hn

theorem entryCovers_head_ne (a b : Nat) (s h sch : Bytes) (p : Int) (w : Bool) (sch' : Bytes) (p' : Int) (hab : a ≠ b) :
    entryCovers (a :: s) sch p w (b :: h) sch' p' = false := by
  apply entryCovers_not_prefix
  simp [List.isPrefixOf, hab]

theorem entryCovers_nil_host (a : Nat) (s sch : Bytes) (p : Int) (w : Bool) (sch' : Bytes) (p' : Int) :
    entryCovers (a :: s) sch p w [] sch' p' = false := by
  apply entryCovers_not_prefix; rfl

/-- The empty key: an exact entry covers the empty rest, a wildcard entry every non-empty rest. -/
theorem entryCovers_nil_key (sch : Bytes) (p : Int) (w : Bool) (h sch' : Bytes) (p' : Int) :
    entryCovers [] sch p w h sch' p' = (sch == sch' && ((w == !h.isEmpty) && (p == p' || p == 65536))) := by
  unfold entryCovers
  cases w <;> cases h <;> simp [List.isPrefixOf]

/-! ### The tree invariant -/

mutual
/-- Invariant of a node: scheme table fine; children sorted by label, each child's (non-empty)
suffix starts with its label. The node's own suffix is constrained by its parent. -/
def Inv : Node → Prop
  | .mk _ schemes kids => SchemesOK schemes ∧ KidsInv kids
def KidsInv : List (Nat × Node) → Prop
  | [] => True
  | (l, c) :: rest => c.suf.head? = some l ∧ Inv c ∧ (∀ e ∈ rest, l < e.1) ∧ KidsInv rest
end

theorem Inv_mk {suf : Bytes} {S : List (Bytes × List Int)} {K : List (Nat × Node)} :
    Inv (.mk suf S K) ↔ SchemesOK S ∧ KidsInv K := by simp [Inv]

theorem KidsInv_cons {l : Nat} {c : Node} {rest : List (Nat × Node)} :
    KidsInv ((l, c) :: rest) ↔ c.suf.head? = some l ∧ Inv c ∧ (∀ e ∈ rest, l < e.1) ∧ KidsInv rest := by simp [KidsInv]

theorem KidsInv_nil : KidsInv [] := by unfold KidsInv; trivial

theorem KidsInv_single (l : Nat) (c : Node) (h1 : c.suf.head? = some l) (h2 : Inv c) : KidsInv [(l, c)] := by
  rw [KidsInv_cons]
  exact ⟨h1, h2, fun e he => absurd he List.not_mem_nil, KidsInv_nil⟩

theorem Inv_empty : Inv Node.empty := by simp [Node.empty, Inv, KidsInv, SchemesOK_nil]

/-- The look-up of one child: its whole suffix must be a prefix of the remaining host. -/
def childLookup (c : Node) (h sch' : Bytes) (p' : Int) : Bool :=
  match stripPrefix c.suf h with
  | none => false
  | some h' => contains c h' sch' p'

theorem containsKids_cons (l : Nat) (c : Node) (rest : List (Nat × Node)) (l' : Nat) (h sch' : Bytes) (p' : Int) :
    containsKids ((l, c) :: rest) l' h sch' p' =
      if l' == l then childLookup c h sch' p' else containsKids rest l' h sch' p' := by
  cases c with
  | mk csuf cs ck =>
    rw [containsKids]
    simp only [childLookup, Node.suf]
    split <;> rfl

theorem containsKids_nil (l' : Nat) (h sch' : Bytes) (p' : Int) : containsKids [] l' h sch' p' = false := by
  rw [containsKids]

theorem contains_nil_host (suf : Bytes) (S : List (Bytes × List Int)) (K : List (Nat × Node)) (sch' : Bytes) (p' : Int) :
    contains (.mk suf S K) [] sch' p' = containsPort S sch' p' false := by
  rw [contains]

theorem contains_cons_host (suf : Bytes) (S : List (Bytes × List Int)) (K : List (Nat × Node)) (x : Nat) (t sch' : Bytes) (p' : Int) :
    contains (.mk suf S K) (x :: t) sch' p' = (containsPort S sch' p' true || containsKids K x (x :: t) sch' p') := by
  rw [contains]
  cases containsPort S sch' p' true <;> simp

/-- `Contains` never looks at the suffix of the node it is at. -/
theorem contains_suf_irrel (s1 s2 : Bytes) (S : List (Bytes × List Int)) (K : List (Nat × Node)) (h sch' : Bytes) (p' : Int) :
    contains (.mk s1 S K) h sch' p' = contains (.mk s2 S K) h sch' p' := by
  cases h with
  | nil => rw [contains_nil_host, contains_nil_host]
  | cons x t => rw [contains_cons_host, contains_cons_host]

/-- No child with that label: nothing found. -/
theorem containsKids_none_of_lt (K : List (Nat × Node)) (l' : Nat) (h sch' : Bytes) (p' : Int)
    (hl : ∀ e ∈ K, l' < e.1) : containsKids K l' h sch' p' = false := by
  induction K with
  | nil => exact containsKids_nil _ _ _ _
  | cons e rest ih =>
    obtain ⟨l, c⟩ := e
    rw [containsKids_cons]
    have h1 := hl (l, c) List.mem_cons_self
    have : (l' == l) = false := by simp only [beq_eq_false_iff_ne, ne_eq]; omega
    rw [this]
    simp only [Bool.false_eq_true, if_false]
    exact ih (fun e he => hl e (List.mem_cons_of_mem _ he))

/-- The look-up of a freshly created leaf is the coverage of its entry. -/
theorem leaf_lookup (s sch : Bytes) (p : Int) (w : Bool) (hp : 0 ≤ p ∧ p ≤ 65536) (h sch' : Bytes) (p' : Int)
    (hp' : 0 ≤ p' ∧ p' ≤ 65535) :
    childLookup (leaf s sch p w) h sch' p' = entryCovers s sch p w h sch' p' := by
  unfold childLookup leaf
  simp only [Node.suf]
  cases hs : stripPrefix s h with
  | none =>
    simp only []
    exact (entryCovers_not_prefix _ _ _ _ _ _ _ (isPrefixOf_of_strip_none hs)).symm
  | some h' =>
    have hh : h = s ++ h' := stripPrefix_some_iff.mp hs
    subst hh
    simp only []
    have hc : entryCovers s sch p w (s ++ h') sch' p' = entryCovers [] sch p w h' sch' p' := by
      have := entryCovers_cancel s [] sch p w h' sch' p'
      simpa using this
    rw [hc, entryCovers_nil_key]
    cases h' with
    | nil =>
      rw [contains_nil_host, addPort_cover [] SchemesOK_nil sch p w hp sch' p' false hp']
      simp [containsPort, lookupScheme]
    | cons x t =>
      rw [contains_cons_host, containsKids_nil, addPort_cover [] SchemesOK_nil sch p w hp sch' p' true hp']
      simp [containsPort, lookupScheme]

theorem leaf_inv (s sch : Bytes) (p : Int) (w : Bool) (hp : 0 ≤ p ∧ p ≤ 65536) : Inv (leaf s sch p w) := by
  unfold leaf
  rw [Inv_mk]
  exact ⟨addPort_ok [] SchemesOK_nil sch p w hp, by simp [KidsInv]⟩

/-! ### Insertion -/

/-- What is proved about `insert` at a node: the invariant is kept, the node's own suffix is
untouched, and the set of accepted queries grows by exactly the new entry's coverage. -/
def InsertSpec (n : Node) : Prop :=
  Inv n → ∀ (s sch : Bytes) (p : Int) (w : Bool), 0 ≤ p ∧ p ≤ 65536 →
    Inv (insert n s sch p w) ∧ (insert n s sch p w).suf = n.suf ∧
    ∀ (h sch' : Bytes) (p' : Int), 0 ≤ p' ∧ p' ≤ 65535 →
      contains (insert n s sch p w) h sch' p' = (contains n h sch' p' || entryCovers s sch p w h sch' p')

theorem upsert_two (l1 l2 : Nat) (a b : Node) (h : l1 ≠ l2) :
    upsert l2 b [(l1, a)] = if l2 < l1 then [(l2, b), (l1, a)] else [(l1, a), (l2, b)] := by
  simp only [upsert]
  split
  · rfl
  · have : (l2 == l1) = false := by simpa using fun hh => h hh.symm
    simp [this]

/-- The existing edge is taken: descend or split. -/
theorem insertChild_spec (c : Node) (ih : InsertSpec c) (hc : Inv c) (label : Nat) (srest : Bytes)
    (hhead : c.suf.head? = some label) (sch : Bytes) (p : Int) (w : Bool) (hp : 0 ≤ p ∧ p ≤ 65536) :
    Inv (insertChild c (label :: srest) sch p w) ∧ (insertChild c (label :: srest) sch p w).suf.head? = some label ∧
    ∀ (h sch' : Bytes) (p' : Int), 0 ≤ p' ∧ p' ≤ 65535 →
      childLookup (insertChild c (label :: srest) sch p w) h sch' p' =
        (childLookup c h sch' p' || entryCovers (label :: srest) sch p w h sch' p') := by
  cases c with
  | mk csuf cs ck =>
    simp only [Node.suf] at hhead
    obtain ⟨crest, rfl⟩ : ∃ crest, csuf = label :: crest := by
      cases csuf with
      | nil => simp at hhead
      | cons a t => simp at hhead; exact ⟨t, by rw [hhead]⟩
    rw [insertChild]
    obtain ⟨hs, hcs, hdiff⟩ := splitCommon_spec (label :: srest) (label :: crest)
    cases hsp : splitCommon (label :: srest) (label :: crest) with
    | mk restS r2 =>
      obtain ⟨restC, common⟩ := r2
      rw [hsp] at hs hcs hdiff
      simp only [] at hs hcs hdiff
      -- the common part is not empty: both start with `label`
      have hcommon : ∃ ctail, common = label :: ctail := by
        cases common with
        | nil =>
          simp only [List.nil_append] at hs hcs
          exact absurd rfl (hdiff label label srest crest hs.symm hcs.symm)
        | cons a t =>
          simp only [List.cons_append, List.cons.injEq] at hs
          exact ⟨t, by rw [← hs.1]⟩
      obtain ⟨ctail, rfl⟩ := hcommon
      cases restC with
      | nil =>
        -- (a) the child's suffix is consumed: descend
        simp only [List.append_nil] at hcs
        simp only []
        obtain ⟨hinv, hsuf, hcont⟩ := ih hc restS sch p w hp
        refine ⟨hinv, by rw [hsuf]; rfl, ?_⟩
        intro h sch' p' hp'
        unfold childLookup
        rw [hsuf]
        simp only [Node.suf]
        cases hst : stripPrefix (label :: crest) h with
        | none =>
          simp only [Bool.false_or]
          rw [hs, ← hcs]
          exact (entryCovers_not_prefix _ _ _ _ _ _ _ (isPrefixOf_append_left_false (isPrefixOf_of_strip_none hst))).symm
        | some h' =>
          have hh : h = (label :: crest) ++ h' := stripPrefix_some_iff.mp hst
          simp only []
          rw [hcont h' sch' p' hp']
          congr 1
          rw [hs, ← hcs, hh, entryCovers_cancel]
      | cons l1 rc =>
        have hgc1 : Inv (mk (l1 :: rc) cs ck) := by rw [Inv_mk]; exact Inv_mk.mp hc
        simp only []
        cases restS with
        | nil =>
          -- (b) the key ends inside the child's suffix: the new node carries the entry
          simp only [List.append_nil] at hs
          simp only []
          refine ⟨?_, rfl, ?_⟩
          · rw [Inv_mk]
            refine ⟨addPort_ok [] SchemesOK_nil sch p w hp, ?_⟩
            exact KidsInv_single l1 _ rfl hgc1
          · intro h sch' p' hp'
            unfold childLookup
            simp only [Node.suf]
            have hstrip : stripPrefix (label :: crest) h = (stripPrefix (label :: ctail) h).bind (stripPrefix (l1 :: rc)) := by
              rw [hcs, stripPrefix_append]
            rw [hstrip]
            cases hst : stripPrefix (label :: ctail) h with
            | none =>
              simp only [Option.bind_none, Bool.false_or]
              rw [hs]
              exact (entryCovers_not_prefix _ _ _ _ _ _ _ (isPrefixOf_of_strip_none hst)).symm
            | some h' =>
              have hh : h = (label :: ctail) ++ h' := stripPrefix_some_iff.mp hst
              simp only [Option.bind_some]
              have hcov : entryCovers (label :: srest) sch p w h sch' p' = entryCovers [] sch p w h' sch' p' := by
                rw [hs, hh]
                have := entryCovers_cancel (label :: ctail) [] sch p w h' sch' p'
                simpa using this
              rw [hcov, entryCovers_nil_key]
              cases h' with
              | nil =>
                rw [contains_nil_host, addPort_cover [] SchemesOK_nil sch p w hp sch' p' false hp']
                simp [containsPort, lookupScheme, stripPrefix]
              | cons x t =>
                rw [contains_cons_host, addPort_cover [] SchemesOK_nil sch p w hp sch' p' true hp', containsKids_cons,
                  containsKids_nil]
                by_cases hx : x = l1
                · subst hx
                  simp only [beq_self_eq_true, if_true, childLookup, Node.suf]
                  cases hst2 : stripPrefix (x :: rc) (x :: t) with
                  | none => simp [containsPort, lookupScheme]
                  | some h'' =>
                    simp only []
                    rw [contains_suf_irrel (x :: rc) (label :: crest)]
                    simp [containsPort, lookupScheme, Bool.or_comm]
                · have hx' : (x == l1) = false := by simpa using hx
                  rw [hx', stripPrefix_cons_ne _ _ (fun hh => hx hh.symm)]
                  simp [containsPort, lookupScheme]
        | cons l2 rs =>
          -- (c) key and child's suffix diverge: a new inner node with two children
          have hne : l2 ≠ l1 := hdiff l2 l1 rs rc rfl rfl
          simp only []
          rw [upsert_two l1 l2 _ _ (fun hh => hne hh.symm)]
          have hleaf := leaf_inv (l2 :: rs) sch p w hp
          refine ⟨?_, rfl, ?_⟩
          · rw [Inv_mk]
            refine ⟨SchemesOK_nil, ?_⟩
            split
            · rename_i hlt
              rw [KidsInv_cons]
              refine ⟨rfl, hleaf, fun e he => by simp at he; rw [he]; exact hlt, ?_⟩
              exact KidsInv_single l1 _ rfl hgc1
            · rename_i hlt
              have hlt' : l1 < l2 := by omega
              rw [KidsInv_cons]
              refine ⟨rfl, hgc1, fun e he => by simp at he; rw [he]; exact hlt', ?_⟩
              exact KidsInv_single l2 _ rfl hleaf
          · intro h sch' p' hp'
            unfold childLookup
            simp only [Node.suf]
            have hstrip : stripPrefix (label :: crest) h = (stripPrefix (label :: ctail) h).bind (stripPrefix (l1 :: rc)) := by
              rw [hcs, stripPrefix_append]
            rw [hstrip]
            cases hst : stripPrefix (label :: ctail) h with
            | none =>
              simp only [Option.bind_none, Bool.false_or]
              rw [hs]
              exact (entryCovers_not_prefix _ _ _ _ _ _ _
                (isPrefixOf_append_left_false (isPrefixOf_of_strip_none hst))).symm
            | some h' =>
              have hh : h = (label :: ctail) ++ h' := stripPrefix_some_iff.mp hst
              simp only [Option.bind_some]
              have hcov : entryCovers (label :: srest) sch p w h sch' p' = entryCovers (l2 :: rs) sch p w h' sch' p' := by
                rw [hs, hh, entryCovers_cancel]
              rw [hcov]
              cases h' with
              | nil =>
                rw [contains_nil_host, entryCovers_nil_host]
                simp [containsPort, lookupScheme, stripPrefix]
              | cons x t =>
                rw [contains_cons_host]
                have hcp : containsPort [] sch' p' true = false := by simp [containsPort, lookupScheme]
                rw [hcp, Bool.false_or]
                have hleafL := leaf_lookup (l2 :: rs) sch p w hp (x :: t) sch' p' hp'
                have hgcL : childLookup (mk (l1 :: rc) cs ck) (x :: t) sch' p' =
                    (match stripPrefix (l1 :: rc) (x :: t) with
                      | none => false
                      | some h'' => contains (mk (label :: crest) cs ck) h'' sch' p') := by
                  unfold childLookup
                  simp only [Node.suf]
                  cases stripPrefix (l1 :: rc) (x :: t) with
                  | none => rfl
                  | some h'' => simp only []; rw [contains_suf_irrel]
                by_cases hx1 : x = l1
                · subst hx1
                  have hx2 : (x == l2) = false := by simpa using fun hh => hne hh.symm
                  have hec : entryCovers (l2 :: rs) sch p w (x :: t) sch' p' = false :=
                    entryCovers_head_ne _ _ _ _ _ _ _ _ _ hne
                  rw [hec, Bool.or_false]
                  split
                  · rw [containsKids_cons, hx2]
                    simp only [Bool.false_eq_true, if_false]
                    rw [containsKids_cons]
                    simp only [beq_self_eq_true, if_true]
                    exact hgcL
                  · rw [containsKids_cons]
                    simp only [beq_self_eq_true, if_true]
                    exact hgcL
                · have hx1' : (x == l1) = false := by simpa using hx1
                  rw [stripPrefix_cons_ne _ _ (fun hh => hx1 hh.symm)]
                  simp only [Bool.false_or]
                  by_cases hx2 : x = l2
                  · subst hx2
                    split
                    · rw [containsKids_cons]
                      simp only [beq_self_eq_true, if_true]
                      exact hleafL
                    · rw [containsKids_cons, hx1']
                      simp only [Bool.false_eq_true, if_false]
                      rw [containsKids_cons]
                      simp only [beq_self_eq_true, if_true]
                      exact hleafL
                  · have hx2' : (x == l2) = false := by simpa using hx2
                    have hec : entryCovers (l2 :: rs) sch p w (x :: t) sch' p' = false :=
                      entryCovers_head_ne _ _ _ _ _ _ _ _ _ (fun hh => hx2 hh.symm)
                    rw [hec]
                    split <;> simp [containsKids_cons, containsKids_nil, hx1', hx2']

/-- What is proved about `insertKids` on a child list. -/
def InsertKidsSpec (K : List (Nat × Node)) : Prop :=
  KidsInv K → ∀ (label : Nat) (srest sch : Bytes) (p : Int) (w : Bool), 0 ≤ p ∧ p ≤ 65536 →
    KidsInv (insertKids K label (label :: srest) sch p w) ∧
    (∀ m, (∀ e ∈ K, m < e.1) → m < label → ∀ e ∈ insertKids K label (label :: srest) sch p w, m < e.1) ∧
    ∀ (l' : Nat) (hrest sch' : Bytes) (p' : Int), 0 ≤ p' ∧ p' ≤ 65535 →
      containsKids (insertKids K label (label :: srest) sch p w) l' (l' :: hrest) sch' p' =
        (containsKids K l' (l' :: hrest) sch' p' || entryCovers (label :: srest) sch p w (l' :: hrest) sch' p')

/-- A query that can be covered by a wildcard-subdomain entry at this very node: what
`n.contains(scheme, port, true)` being true in `Insert` means for later queries. -/
theorem covered_by_ancestor (S : List (Bytes × List Int)) (sch : Bytes) (p : Int)
    (hcp : containsPort S sch p true = true) (sch' : Bytes) (p' : Int) (hs : sch = sch') (hpp : p = p' ∨ p = 65536) :
    containsPort S sch' p' true = true := by
  subst hs
  rw [containsPort_eq] at hcp ⊢
  cases hl : lookupScheme sch S with
  | none => rw [hl] at hcp; cases hcp
  | some ports =>
    rw [hl] at hcp
    exact covers_mono ports p p' true hcp hpp

theorem entryCovers_parts {s sch : Bytes} {p : Int} {w : Bool} {h sch' : Bytes} {p' : Int}
    (hc : entryCovers s sch p w h sch' p' = true) : sch = sch' ∧ (p = p' ∨ p = 65536) ∧ s.isPrefixOf h = true := by
  unfold entryCovers at hc
  simp only [Bool.and_eq_true, beq_iff_eq, Bool.or_eq_true] at hc
  refine ⟨hc.1, hc.2.2, ?_⟩
  cases w
  · simp only [Bool.false_eq_true, if_false, beq_iff_eq] at hc
    rw [hc.2.1]; exact isPrefixOf_iff.mpr ⟨[], by simp⟩
  · simp only [if_true, Bool.and_eq_true] at hc
    exact hc.2.1.2

mutual
theorem insert_spec : (n : Node) → InsertSpec n
  | .mk suf S K => by
    intro hinv s sch p w hp
    obtain ⟨hS, hK⟩ := Inv_mk.mp hinv
    cases s with
    | nil =>
      -- the key is exhausted: the entry goes into this node's table
      rw [insert]
      refine ⟨Inv_mk.mpr ⟨addPort_ok S hS sch p w hp, hK⟩, rfl, ?_⟩
      intro h sch' p' hp'
      rw [entryCovers_nil_key]
      cases h with
      | nil =>
        rw [contains_nil_host, contains_nil_host, addPort_cover S hS sch p w hp sch' p' false hp']
        simp
      | cons x t =>
        rw [contains_cons_host, contains_cons_host, addPort_cover S hS sch p w hp sch' p' true hp']
        simp only [List.isEmpty_cons, Bool.not_false]
        cases containsPort S sch' p' true <;> cases containsKids K x (x :: t) sch' p' <;> simp
    | cons label srest =>
      rw [insert]
      by_cases hsub : containsPort S sch p true = true
      · -- subsumed by a wildcard-subdomain entry of this node: nothing to insert
        rw [if_pos hsub]
        refine ⟨hinv, rfl, ?_⟩
        intro h sch' p' hp'
        cases hec : entryCovers (label :: srest) sch p w h sch' p' with
        | false => simp
        | true =>
          obtain ⟨hs, hpp, hpre⟩ := entryCovers_parts hec
          obtain ⟨r, hr⟩ := isPrefixOf_iff.mp hpre
          subst hr
          simp only [List.cons_append, Bool.or_true]
          rw [contains_cons_host, covered_by_ancestor S sch p hsub sch' p' hs hpp]
          rfl
      · rw [if_neg hsub]
        obtain ⟨hK', _, hcont⟩ := insertKids_spec K hK label srest sch p w hp
        refine ⟨Inv_mk.mpr ⟨hS, hK'⟩, rfl, ?_⟩
        intro h sch' p' hp'
        cases h with
        | nil =>
          rw [contains_nil_host, contains_nil_host, entryCovers_nil_host]
          simp
        | cons x t =>
          rw [contains_cons_host, contains_cons_host, hcont x t sch' p' hp', Bool.or_assoc]

theorem insertKids_spec : (K : List (Nat × Node)) → InsertKidsSpec K
  | [] => by
    intro _ label srest sch p w hp
    rw [insertKids]
    refine ⟨KidsInv_single label _ rfl (leaf_inv _ sch p w hp), ?_, ?_⟩
    · intro m _ hm e he
      simp at he; rw [he]; exact hm
    · intro l' hrest sch' p' hp'
      rw [containsKids_cons, containsKids_nil]
      by_cases hl : l' = label
      · subst hl
        simp only [beq_self_eq_true, if_true, Bool.false_or]
        exact leaf_lookup _ sch p w hp _ sch' p' hp'
      · have : (l' == label) = false := by simpa using hl
        rw [this, entryCovers_head_ne _ _ _ _ _ _ _ _ _ (fun hh => hl hh.symm)]
        simp
  | (l, c) :: rest => by
    intro hinv label srest sch p w hp
    obtain ⟨hhead, hc, hlt, hrest⟩ := KidsInv_cons.mp hinv
    rw [insertKids]
    by_cases h1 : label < l
    · -- new edge before this one
      rw [if_pos h1]
      refine ⟨?_, ?_, ?_⟩
      · rw [KidsInv_cons]
        refine ⟨rfl, leaf_inv _ sch p w hp, ?_, hinv⟩
        intro e he
        rcases List.mem_cons.mp he with rfl | he
        · exact h1
        · exact Nat.lt_trans h1 (hlt e he)
      · intro m hm hml e he
        rcases List.mem_cons.mp he with rfl | he
        · exact hml
        · exact hm e he
      · intro l' hrest' sch' p' hp'
        rw [containsKids_cons]
        by_cases hl : l' = label
        · subst hl
          simp only [beq_self_eq_true, if_true]
          have hnone : containsKids ((l, c) :: rest) l' (l' :: hrest') sch' p' = false := by
            apply containsKids_none_of_lt
            intro e he
            rcases List.mem_cons.mp he with rfl | he
            · exact h1
            · exact Nat.lt_trans h1 (hlt e he)
          rw [hnone, Bool.false_or]
          exact leaf_lookup _ sch p w hp _ sch' p' hp'
        · have : (l' == label) = false := by simpa using hl
          rw [this, entryCovers_head_ne _ _ _ _ _ _ _ _ _ (fun hh => hl hh.symm)]
          simp
    · rw [if_neg h1]
      by_cases h2 : label = l
      · -- the edge exists
        subst h2
        simp only [beq_self_eq_true, if_true]
        obtain ⟨hci, hch, hcc⟩ := insertChild_spec c (insert_spec c) hc label srest hhead sch p w hp
        refine ⟨?_, ?_, ?_⟩
        · rw [KidsInv_cons]
          exact ⟨hch, hci, hlt, hrest⟩
        · intro m hm hml e he
          rcases List.mem_cons.mp he with rfl | he
          · exact hml
          · exact hm e (List.mem_cons_of_mem _ he)
        · intro l' hrest' sch' p' hp'
          rw [containsKids_cons, containsKids_cons]
          by_cases hl : l' = label
          · subst hl
            simp only [beq_self_eq_true, if_true]
            exact hcc _ sch' p' hp'
          · have : (l' == label) = false := by simpa using hl
            rw [this, entryCovers_head_ne _ _ _ _ _ _ _ _ _ (fun hh => hl hh.symm)]
            simp
      · -- keep looking to the right
        have h2' : (label == l) = false := by simpa using h2
        rw [h2']
        simp only [Bool.false_eq_true, if_false]
        have hgt : l < label := by omega
        obtain ⟨hri, hrlb, hrc⟩ := insertKids_spec rest hrest label srest sch p w hp
        refine ⟨?_, ?_, ?_⟩
        · rw [KidsInv_cons]
          exact ⟨hhead, hc, hrlb l hlt hgt, hri⟩
        · intro m hm hml e he
          rcases List.mem_cons.mp he with rfl | he
          · exact hm _ List.mem_cons_self
          · exact hrlb m (fun e he => hm e (List.mem_cons_of_mem _ he)) hml e he
        · intro l' hrest' sch' p' hp'
          rw [containsKids_cons, containsKids_cons]
          by_cases hl : l' = l
          · subst hl
            simp only [beq_self_eq_true, if_true]
            rw [entryCovers_head_ne _ _ _ _ _ _ _ _ _ h2]
            simp
          · have : (l' == l) = false := by simpa using hl
            rw [this]
            simp only [Bool.false_eq_true, if_false]
            exact hrc l' hrest' sch' p' hp'
end

end Node
end Cors
