import CorsVerif.Proofs.Accept
/-
  The request-side lexer on serialised origins, host kind by host kind.
-/
namespace Cors
open Gen Spec Pat
namespace Accept

/-- The port part of a serialised origin. -/
def portStr : DocPort → Bytes
  | .absent => []
  | .num ds => 58 :: ds
  | .any => [58, 42]

def portNum : DocPort → Nat
  | .num ds => portValue ds
  | _ => 0

theorem stops_portStr (p : DocPort) : Stops (portStr p) := by
  cases p with
  | absent => exact Or.inl rfl
  | num ds => exact stops_colon ds
  | any => exact stops_colon [42]

/-- **Assembly.** If the host lexer reads `hostStr` as `host` whenever what follows cannot belong to a
host, then `Parse` reads `scheme://hostStr[:port]` as (scheme, host, port), up to the length cap. -/
theorem parse_assemble (scheme hostStr : Bytes) (host : Host) (p : DocPort)
    (hs : docScheme scheme = true) (hp : docPortOK p = true) (hany : p ≠ .any)
    (hfp : ∀ r, Stops r → Lex.fastParseHost (hostStr ++ r) = some (host, r))
    (hlen : scheme.length + 3 + hostStr.length + (portStr p).length ≤ Facts.origins_Parse_maxOriginLen) :
    Lex.parse (scheme ++ Spec.b "://" ++ hostStr ++ portStr p) = some { scheme := scheme, host := host, port := portNum p } := by
  have hsep : Spec.b "://" = [58, 47, 47] := by decide
  have hrender : scheme ++ Spec.b "://" ++ hostStr ++ portStr p = scheme ++ (58 :: 47 :: 47 :: (hostStr ++ portStr p)) := by
    rw [hsep]; simp
  have hl : ¬ ((scheme ++ Spec.b "://" ++ hostStr ++ portStr p).length > Facts.origins_Parse_maxOriginLen) := by
    rw [hrender]
    simp only [List.length_append, List.length_cons]
    omega
  unfold Lex.parse
  rw [if_neg hl, hrender, parseScheme_doc hs _ (by simp only [List.head?_cons, Option.all_some]; decide)]
  simp only []
  have hcut : Bytes.cutPrefix (58 :: 47 :: 47 :: (hostStr ++ portStr p)) Facts.origins_schemeHostSep = some (hostStr ++ portStr p) := by
    simp [Facts.origins_schemeHostSep, Bytes.cutPrefix]
  rw [hcut]
  simp only []
  rw [hfp _ (stops_portStr p)]
  simp only []
  cases p with
  | absent => simp [portStr, portNum]
  | any => exact absurd rfl hany
  | num ds =>
    simp only [portStr, portNum, List.isEmpty_cons, Bool.false_eq_true, if_false]
    have : Bytes.cutPrefix (58 :: ds) [Facts.origins_hostPortSep] = some ds := by
      simp [Bytes.cutPrefix, Facts.origins_hostPortSep]
    rw [this]
    simp only []
    rw [parsePort_doc ds hp]
    simp

/-- The host lexer on a dotted quad. -/
theorem fastParseHost_v4 (a b c d : Bytes) (ha : docOctet a = true) (hb : docOctet b = true) (hc : docOctet c = true)
    (hd : docOctet d = true) (r : Bytes) (hr : Stops r) :
    Lex.fastParseHost (Bytes.join 46 [a, b, c, d] ++ r) = some ({ value := Bytes.join 46 [a, b, c, d], assumeIP := true }, r) := by
  have hoct : ∀ f, docOctet f = true → f ≠ [] ∧ f.all Spec.isDigit = true := by
    intro f hf
    unfold docOctet at hf
    simp only [Bool.and_eq_true, Bool.not_eq_true'] at hf
    exact ⟨by intro h; rw [h] at hf; simp at hf, hf.1.1.1.2⟩
  have hldh : ∀ f, docOctet f = true → f ≠ [] ∧ f.all Spec.isLDH = true := by
    intro f hf
    obtain ⟨h1, h2⟩ := hoct f hf
    refine ⟨h1, ?_⟩
    rw [List.all_eq_true] at h2 ⊢
    intro x hx
    exact digit_isLDH (h2 x hx)
  have hls : ∀ l ∈ [a, b, c, d], l ≠ [] ∧ l.all Spec.isLDH = true := by
    intro l hl
    simp only [List.mem_cons, List.not_mem_nil, or_false] at hl
    rcases hl with rfl | rfl | rfl | rfl
    · exact hldh _ ha
    · exact hldh _ hb
    · exact hldh _ hc
    · exact hldh _ hd
  -- the first byte is a digit
  obtain ⟨hane, hadig⟩ := hoct a ha
  obtain ⟨x, t, hat⟩ : ∃ x t, a = x :: t := by
    cases a with
    | nil => exact absurd rfl hane
    | cons x t => exact ⟨x, t, rfl⟩
  have hxd : Spec.isDigit x = true := by
    rw [hat] at hadig
    simp only [List.all_cons, Bool.and_eq_true] at hadig
    exact hadig.1
  have hx46 : x ≠ 46 := by intro h; subst h; revert hxd; decide
  have hx91 : x ≠ 91 := by intro h; subst h; revert hxd; decide
  have hstart : ∃ t', Bytes.join 46 [a, b, c, d] ++ r = x :: t' := by
    rw [hat]; simp [Bytes.join]
  obtain ⟨t', ht'⟩ := hstart
  unfold Lex.fastParseHost
  rw [ht']
  have hb' : ((x :: t').length ≥ Facts.origins_fastParseHost_minIPv6HostLen && (x :: t').head? == some 91) = false := by
    simp [hx91]
  rw [if_neg (by rw [hb']; simp)]
  simp only []
  have h46 : (x == Facts.origins_labelSep) = false := by simpa [Facts.origins_labelSep] using hx46
  rw [if_neg (by rw [h46]; simp)]
  rw [← ht']
  have hlast : ∃ l, [a, b, c, d].getLast? = some l ∧ l.head?.any Spec.isDigit = true := by
    refine ⟨d, rfl, ?_⟩
    obtain ⟨hdne, hddig⟩ := hoct d hd
    cases d with
    | nil => exact absurd rfl hdne
    | cons y u =>
      simp only [List.all_cons, Bool.and_eq_true] at hddig
      simp [hddig.1]
  rw [hostLoop_v4 [a, b, c, d] hls (by simp) hlast r hr false false true (Or.inr rfl)]

/-- The host lexer on a bracketed literal: whatever stands between the brackets (the request side
does not validate it; no allowed pattern can denote a malformed one). -/
theorem fastParseHost_bracket (lit : Bytes) (hlen : 2 ≤ lit.length) (hnb : (93 : Nat) ∉ lit) (r : Bytes) :
    Lex.fastParseHost ([91] ++ lit ++ [93] ++ r) = some ({ value := lit, assumeIP := true }, r) := by
  unfold Lex.fastParseHost
  have h1 : (([91] ++ lit ++ [93] ++ r).length ≥ Facts.origins_fastParseHost_minIPv6HostLen && ([91] ++ lit ++ [93] ++ r).head? == some 91) = true := by
    simp [Facts.origins_fastParseHost_minIPv6HostLen]
    omega
  rw [if_pos h1]
  have h2 : [91] ++ lit ++ [93] ++ r = (91 :: lit) ++ 93 :: r := by simp
  rw [h2, cutAt_found 93 (91 :: lit) r (by simp [hnb])]
  simp

end Accept
end Cors
