import CorsVerif.Proofs.Serve
/- GENERATED-STYLE boilerplate: pairwise distinctness of the eight response-header names
   (each by `decide` over the regenerated constants), tagged for `simp [names_ne]`-style use. -/
namespace Cors.NamesNe
open Cors.Gen

@[simp] theorem vary_acao : Facts.headers_Vary ≠ Facts.headers_ACAO := by decide
@[simp] theorem vary_acac : Facts.headers_Vary ≠ Facts.headers_ACAC := by decide
@[simp] theorem vary_acam : Facts.headers_Vary ≠ Facts.headers_ACAM := by decide
@[simp] theorem vary_acah : Facts.headers_Vary ≠ Facts.headers_ACAH := by decide
@[simp] theorem vary_acapn : Facts.headers_Vary ≠ Facts.headers_ACAPN := by decide
@[simp] theorem vary_acma : Facts.headers_Vary ≠ Facts.headers_ACMA := by decide
@[simp] theorem vary_aceh : Facts.headers_Vary ≠ Facts.headers_ACEH := by decide
@[simp] theorem acao_vary : Facts.headers_ACAO ≠ Facts.headers_Vary := by decide
@[simp] theorem acao_acac : Facts.headers_ACAO ≠ Facts.headers_ACAC := by decide
@[simp] theorem acao_acam : Facts.headers_ACAO ≠ Facts.headers_ACAM := by decide
@[simp] theorem acao_acah : Facts.headers_ACAO ≠ Facts.headers_ACAH := by decide
@[simp] theorem acao_acapn : Facts.headers_ACAO ≠ Facts.headers_ACAPN := by decide
@[simp] theorem acao_acma : Facts.headers_ACAO ≠ Facts.headers_ACMA := by decide
@[simp] theorem acao_aceh : Facts.headers_ACAO ≠ Facts.headers_ACEH := by decide
@[simp] theorem acac_vary : Facts.headers_ACAC ≠ Facts.headers_Vary := by decide
@[simp] theorem acac_acao : Facts.headers_ACAC ≠ Facts.headers_ACAO := by decide
@[simp] theorem acac_acam : Facts.headers_ACAC ≠ Facts.headers_ACAM := by decide
@[simp] theorem acac_acah : Facts.headers_ACAC ≠ Facts.headers_ACAH := by decide
@[simp] theorem acac_acapn : Facts.headers_ACAC ≠ Facts.headers_ACAPN := by decide
@[simp] theorem acac_acma : Facts.headers_ACAC ≠ Facts.headers_ACMA := by decide
@[simp] theorem acac_aceh : Facts.headers_ACAC ≠ Facts.headers_ACEH := by decide
@[simp] theorem acam_vary : Facts.headers_ACAM ≠ Facts.headers_Vary := by decide
@[simp] theorem acam_acao : Facts.headers_ACAM ≠ Facts.headers_ACAO := by decide
@[simp] theorem acam_acac : Facts.headers_ACAM ≠ Facts.headers_ACAC := by decide
@[simp] theorem acam_acah : Facts.headers_ACAM ≠ Facts.headers_ACAH := by decide
@[simp] theorem acam_acapn : Facts.headers_ACAM ≠ Facts.headers_ACAPN := by decide
@[simp] theorem acam_acma : Facts.headers_ACAM ≠ Facts.headers_ACMA := by decide
@[simp] theorem acam_aceh : Facts.headers_ACAM ≠ Facts.headers_ACEH := by decide
@[simp] theorem acah_vary : Facts.headers_ACAH ≠ Facts.headers_Vary := by decide
@[simp] theorem acah_acao : Facts.headers_ACAH ≠ Facts.headers_ACAO := by decide
@[simp] theorem acah_acac : Facts.headers_ACAH ≠ Facts.headers_ACAC := by decide
@[simp] theorem acah_acam : Facts.headers_ACAH ≠ Facts.headers_ACAM := by decide
@[simp] theorem acah_acapn : Facts.headers_ACAH ≠ Facts.headers_ACAPN := by decide
@[simp] theorem acah_acma : Facts.headers_ACAH ≠ Facts.headers_ACMA := by decide
@[simp] theorem acah_aceh : Facts.headers_ACAH ≠ Facts.headers_ACEH := by decide
@[simp] theorem acapn_vary : Facts.headers_ACAPN ≠ Facts.headers_Vary := by decide
@[simp] theorem acapn_acao : Facts.headers_ACAPN ≠ Facts.headers_ACAO := by decide
@[simp] theorem acapn_acac : Facts.headers_ACAPN ≠ Facts.headers_ACAC := by decide
@[simp] theorem acapn_acam : Facts.headers_ACAPN ≠ Facts.headers_ACAM := by decide
@[simp] theorem acapn_acah : Facts.headers_ACAPN ≠ Facts.headers_ACAH := by decide
@[simp] theorem acapn_acma : Facts.headers_ACAPN ≠ Facts.headers_ACMA := by decide
@[simp] theorem acapn_aceh : Facts.headers_ACAPN ≠ Facts.headers_ACEH := by decide
@[simp] theorem acma_vary : Facts.headers_ACMA ≠ Facts.headers_Vary := by decide
@[simp] theorem acma_acao : Facts.headers_ACMA ≠ Facts.headers_ACAO := by decide
@[simp] theorem acma_acac : Facts.headers_ACMA ≠ Facts.headers_ACAC := by decide
@[simp] theorem acma_acam : Facts.headers_ACMA ≠ Facts.headers_ACAM := by decide
@[simp] theorem acma_acah : Facts.headers_ACMA ≠ Facts.headers_ACAH := by decide
@[simp] theorem acma_acapn : Facts.headers_ACMA ≠ Facts.headers_ACAPN := by decide
@[simp] theorem acma_aceh : Facts.headers_ACMA ≠ Facts.headers_ACEH := by decide
@[simp] theorem aceh_vary : Facts.headers_ACEH ≠ Facts.headers_Vary := by decide
@[simp] theorem aceh_acao : Facts.headers_ACEH ≠ Facts.headers_ACAO := by decide
@[simp] theorem aceh_acac : Facts.headers_ACEH ≠ Facts.headers_ACAC := by decide
@[simp] theorem aceh_acam : Facts.headers_ACEH ≠ Facts.headers_ACAM := by decide
@[simp] theorem aceh_acah : Facts.headers_ACEH ≠ Facts.headers_ACAH := by decide
@[simp] theorem aceh_acapn : Facts.headers_ACEH ≠ Facts.headers_ACAPN := by decide
@[simp] theorem aceh_acma : Facts.headers_ACEH ≠ Facts.headers_ACMA := by decide

end Cors.NamesNe
