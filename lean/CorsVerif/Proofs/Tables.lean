import CorsVerif.Spec.Fetch
import CorsVerif.Proofs.ACRH
/-
  The regenerated Go tables have exactly the members of the hand-written specification tables,
  and `Set.Contains` on a set built with `NewSet` is list membership.
-/
namespace Cors
open Gen

/-- Same members (as lists used as sets). -/
def sameMembers (xs ys : List Bytes) : Bool := xs.all ys.contains && ys.all xs.contains

theorem sameMembers_iff {xs ys : List Bytes} (h : sameMembers xs ys = true) (x : Bytes) : xs.contains x = ys.contains x := by
  simp only [sameMembers, Bool.and_eq_true, List.all_eq_true] at h
  cases hx : xs.contains x with
  | true => exact (h.1 x (by simpa using hx)).symm
  | false =>
    cases hy : ys.contains x with
    | false => rfl
    | true => rw [h.2 x (by simpa using hy)] at hx; cases hx

theorem tbl_forbiddenReq : sameMembers Facts.headers_discreteForbiddenRequestHeaderNames Spec.forbiddenRequestHeaderNames = true := by decide
theorem tbl_prohibitedReq : sameMembers Facts.headers_prohibitedRequestHeaderNames Spec.prohibitedRequestHeaderNames = true := by decide
theorem tbl_forbiddenRes : sameMembers Facts.headers_forbiddenResponseHeaderNames Spec.forbiddenResponseHeaderNames = true := by decide
theorem tbl_prohibitedRes : sameMembers Facts.headers_prohibitedResponseHeaderNames Spec.prohibitedResponseHeaderNames = true := by decide
theorem tbl_safelistedRes : sameMembers Facts.headers_safelistedResponseHeaderNames Spec.safelistedResponseHeaderNames = true := by decide
theorem tbl_forbiddenMethods : sameMembers Facts.methods_byteUppercasedForbiddenMethods Spec.forbiddenMethods = true := by decide
theorem tbl_safelistedMethods : sameMembers Facts.methods_safelistedMethods Spec.safelistedMethods = true := by decide
theorem tbl_normalizedMethods : sameMembers Facts.methods_browserNormalizedMethods Spec.normalizedMethods = true := by decide
theorem tbl_authorization : Facts.headers_Authorization = Spec.authorization := by decide
theorem tbl_star : Facts.headers_ValueWildcard = Spec.star := by decide

/-- `Set.Contains` / `SortedSet.IndexAfter(-1, ·) >= 0` is membership, for a well-formed set. -/
theorem SortedSet.contains_iff (set : SortedSet) (h : set.WF) (x : Bytes) : set.contains x = set.elems.contains x := by
  unfold SortedSet.contains
  rw [ACRH.indexAfter_eq set h]
  simp only [List.drop_zero, Option.isSome_map]
  cases hf : SortedSet.findIdx x set.elems with
  | none =>
    have := ACRH.findIdx_none.mp hf
    simp [this]
  | some j =>
    obtain ⟨pre, post, h1, _, _⟩ := ACRH.findIdx_some hf
    rw [h1]; simp

theorem SortedSet.mem_ofList (es : List Bytes) (x : Bytes) : x ∈ (SortedSet.ofList es).elems ↔ x ∈ es := by
  unfold SortedSet.ofList
  suffices ∀ (s : SortedSet), x ∈ (es.foldl SortedSet.add s).elems ↔ x ∈ s.elems ∨ x ∈ es by
    have := this SortedSet.empty
    simpa [SortedSet.empty] using this
  induction es with
  | nil => intro s; simp
  | cons e es ih =>
    intro s
    rw [List.foldl_cons, ih, SortedSet.mem_add]
    simp only [List.mem_cons]
    constructor
    · rintro ((h | h) | h)
      · exact Or.inr (Or.inl h)
      · exact Or.inl h
      · exact Or.inr (Or.inr h)
    · rintro (h | h | h)
      · exact Or.inl (Or.inr h)
      · exact Or.inl (Or.inl h)
      · exact Or.inr h

/-- Looking a name up in a table built with `util.NewSet` is list membership. -/
theorem SortedSet.ofList_contains (es : List Bytes) (x : Bytes) : (SortedSet.ofList es).contains x = es.contains x := by
  rw [SortedSet.contains_iff _ (SortedSet.ofList_wf es)]
  cases h : es.contains x with
  | true => simpa using (SortedSet.mem_ofList es x).mpr (by simpa using h)
  | false =>
    have : x ∉ es := by simpa using h
    simpa using fun hh => this ((SortedSet.mem_ofList es x).mp hh)

end Cors
