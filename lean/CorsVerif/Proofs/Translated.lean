import CorsVerif.Gen.Pipeline
/-
  The translated steps of the preflight pipeline (Gen/Pipeline.lean, regenerated from middleware.go on every run by
  harness/extract/translate.go) are the hand-written model's (Model/Serve.lean).
-/
set_option linter.unusedSimpArgs false

namespace Cors
namespace Translated
open Gen Serve

/-- `processACRM` as translated = as modelled (the caller passes `headers.First`'s one-element slice). -/
theorem processACRM_eq (icfg : ICfg) (buf : Buf) (acrm : Bytes) :
    Gen.GoSrc.processACRM icfg buf acrm [acrm] = GoRt.result buf (Serve.processACRM icfg buf acrm) := by
  unfold Gen.GoSrc.processACRM Serve.processACRM GoRt.result
  cases Methods.isSafelisted acrm <;> cases icfg.allowAnyMethod <;> cases icfg.credentialed <;>
    cases icfg.allowedMethods.contains acrm <;> rfl

/-- `processACRPN` as translated = as modelled. -/
theorem processACRPN_eq (icfg : ICfg) (buf : Buf) (reqHdrs : HdrMap) :
    Gen.GoSrc.processACRPN icfg buf reqHdrs = GoRt.result buf (Serve.processACRPN icfg buf reqHdrs) := by
  unfold Gen.GoSrc.processACRPN Serve.processACRPN GoRt.first HdrMap.first GoRt.result
  cases h : reqHdrs Facts.headers_ACRPN with
  | none => rfl
  | some v =>
    cases v with
    | nil => rfl
    | cons a rest =>
      cases hne : (a != Facts.headers_ValueTrue) <;> cases icfg.pna <;> cases icfg.pnaNoCors <;> simp [hne]

/-- `processOriginForPreflight` as translated = as modelled with the model's own decisions. -/
theorem processOriginForPreflight_eq (icfg : ICfg) (buf : Buf) (origin : Bytes) :
    Gen.GoSrc.processOriginForPreflight icfg buf origin [origin] =
      GoRt.result buf (Serve.processOriginForPreflight (modelDec icfg) icfg buf origin) := by
  unfold Gen.GoSrc.processOriginForPreflight Serve.processOriginForPreflight GoRt.parse modelDec GoRt.result
  cases h : Lex.parse origin with
  | none => simp [h]
  | some o =>
    cases icfg.credentialed <;> cases icfg.tree.isEmpty <;> cases hc : Tree.contains icfg.tree o <;> simp [h, hc]

/-- `processACRH` as translated = as modelled with the model's own decisions. -/
theorem processACRH_eq (icfg : ICfg) (buf : Buf) (reqHdrs : HdrMap) (debug : Bool) :
    Gen.GoSrc.processACRH icfg buf reqHdrs debug = GoRt.result buf (Serve.processACRH (modelDec icfg) icfg buf reqHdrs debug) := by
  unfold Gen.GoSrc.processACRH Serve.processACRH GoRt.lookup modelDec GoRt.result
  cases h : reqHdrs Facts.headers_ACRH with
  | none => rfl
  | some acrh =>
    cases icfg.asteriskReqHdrs <;> cases icfg.credentialed <;> cases icfg.allowAuthorization <;> cases debug <;>
      cases hs : (icfg.allowedReqHdrs.size == 0) <;> cases hk : Headers.check icfg.allowedReqHdrs acrh <;>
      cases he : icfg.acah.isEmpty <;> simp [hs, hk, he]

/-- `handleNonCORS` as translated = as modelled. -/
theorem handleNonCORS_eq (icfg : ICfg) (h : HdrMap) (isOPTIONS : Bool) :
    Gen.GoSrc.handleNonCORS icfg h isOPTIONS = Serve.handleNonCORS icfg h isOPTIONS := by
  unfold Gen.GoSrc.handleNonCORS Serve.handleNonCORS
  cases isOPTIONS <;> cases icfg.pnaNoCors <;> cases icfg.tree.isEmpty <;> cases icfg.aceh <;> simp

/-- `handleCORSActual` as translated = as modelled with the model's own origin decision (the caller passes
`headers.First`'s one-element slice). -/
theorem handleCORSActual_eq (icfg : ICfg) (h : HdrMap) (origin : Bytes) (isOPTIONS : Bool) :
    Gen.GoSrc.handleCORSActual icfg h origin [origin] isOPTIONS =
      (Serve.handleCORSActual (modelDec icfg) icfg h origin isOPTIONS, none) := by
  unfold Gen.GoSrc.handleCORSActual Serve.handleCORSActual GoRt.parse modelDec
  cases hp : Lex.parse origin with
  | none =>
    cases isOPTIONS <;> cases icfg.pnaNoCors <;> cases icfg.tree.isEmpty <;> cases icfg.credentialed <;>
      cases icfg.aceh <;> simp [hp]
  | some o =>
    cases isOPTIONS <;> cases icfg.pnaNoCors <;> cases icfg.tree.isEmpty <;> cases icfg.credentialed <;>
      cases hc : Tree.contains icfg.tree o <;> cases icfg.aceh <;> simp [hp, hc]

/-- The failure status the Go code writes is the regenerated fact the model uses. -/
theorem forbidden_eq : Serve.forbidden = 403 := by decide

/-- `handleCORSPreflight` as translated = as modelled: the Vary step, the four steps in order with their failure handling in
both debug modes (what is copied from the buffer, which status is written), `maps.Copy`, the max-age header, the success
status (`int(icfg.preflightStatusMinus200) + 200`, no `uint8` wrap-around). -/
theorem handleCORSPreflight_eq (icfg : ICfg) (h reqHdrs : HdrMap) (origin acrm : Bytes) (debug : Bool) :
    Gen.GoSrc.handleCORSPreflight icfg h reqHdrs origin [origin] acrm [acrm] debug =
      ((Serve.handleCORSPreflight (modelDec icfg) icfg h reqHdrs origin acrm debug).hdrs,
       (Serve.handleCORSPreflight (modelDec icfg) icfg h reqHdrs origin acrm debug).status) := by
  unfold Gen.GoSrc.handleCORSPreflight Serve.handleCORSPreflight Serve.preflightSteps Serve.preflightVary GoRt.lookup
  simp only [processOriginForPreflight_eq, processACRPN_eq, processACRM_eq, processACRH_eq, GoRt.result, forbidden_eq, okStatus]
  cases hv : h Facts.headers_Vary <;>
  cases h1 : Serve.processOriginForPreflight (modelDec icfg) icfg HdrMap.empty origin <;>
    simp only [] <;> (try (cases debug <;> simp; done))
  all_goals (
    rename_i b1
    cases h2 : Serve.processACRPN icfg b1 reqHdrs <;> simp only [] <;> (try (cases debug <;> simp; done))
    rename_i b2
    cases h3 : Serve.processACRM icfg b2 acrm <;> simp only [] <;> (try (cases debug <;> simp; done))
    rename_i b3
    cases h4 : Serve.processACRH (modelDec icfg) icfg b3 reqHdrs debug <;> simp only [] <;> (try (cases debug <;> simp; done))
    cases icfg.acma.isEmpty <;> simp)

/-- A preflight never reaches the wrapped handler (in the model). -/
theorem handleCORSPreflight_next (dec : Dec) (icfg : ICfg) (h reqHdrs : HdrMap) (origin acrm : Bytes) (debug : Bool) :
    (Serve.handleCORSPreflight dec icfg h reqHdrs origin acrm debug).next = false := by
  unfold Serve.handleCORSPreflight
  cases Serve.preflightSteps dec icfg reqHdrs origin acrm debug <;> simp only [] <;> (try split) <;> rfl

/-- The closure returned by `Wrap`, after its passthrough test, as translated = `Serve.serve`: the dispatch on the first
`Origin` value, the method and the first `Access-Control-Request-Method` value, which handler runs, and whether the wrapped
handler is called afterwards. -/
theorem serveClosure_eq (icfg : ICfg) (debug : Bool) (r : Req) (pre : HdrMap) :
    Gen.GoSrc.serveClosure icfg debug r pre = Serve.serve icfg debug r pre := by
  unfold Gen.GoSrc.serveClosure Serve.serve Serve.serveDec GoRt.first HdrMap.first
  cases ho : r.hdrs Facts.headers_Origin with
  | none => simp [handleNonCORS_eq]
  | some vo =>
    cases vo with
    | nil => simp [handleNonCORS_eq]
    | cons origin restO =>
      cases hm : r.hdrs Facts.headers_ACRM with
      | none => simp [handleCORSActual_eq]
      | some vm =>
        cases vm with
        | nil => simp [handleCORSActual_eq]
        | cons acrm restM =>
          cases hopt : (r.method == Serve.OPTIONS) with
          | false => simp [handleCORSActual_eq]
          | true =>
            simp only [Bool.true_and, Bool.not_true, Bool.false_eq_true, if_false, if_true, handleCORSPreflight_eq]
            have hn := handleCORSPreflight_next (modelDec icfg) icfg pre r.hdrs origin acrm debug
            cases hr : Serve.handleCORSPreflight (modelDec icfg) icfg pre r.hdrs origin acrm debug with
            | mk hd st nx =>
              rw [hr] at hn
              simp only [] at hn
              subst hn
              rfl

/-- `(*Middleware).Reconfigure` as translated = the state machine's `Mw.reconfigure`: the error return before anything is
written, the new configuration pointer, `debug = cfg != nil && debug`. -/
theorem reconfigure_eq (ext : Ext) (m : Mw) (cfg : Option Config) :
    Gen.GoSrc.reconfigure ext m cfg = Mw.reconfigure ext m cfg := by
  unfold Gen.GoSrc.reconfigure Mw.reconfigure GoRt.newInternalConfig
  cases cfg with
  | none => rfl
  | some c =>
    cases h : newInternalConfig ext c with
    | error e => simp [h]
    | ok i => simp [h]

/-- `(*Middleware).SetDebug` as translated = `Mw.setDebug`. -/
theorem setDebug_eq (m : Mw) (b : Bool) : Gen.GoSrc.setDebug m b = Mw.setDebug m b := rfl

/-- The whole closure of `Wrap` on the model's state (snapshot, passthrough branch, dispatch) = `Mw.serve`. -/
theorem serveMw_eq (m : Mw) (r : Req) (pre : HdrMap) : Gen.GoSrc.serveMw m r pre = Mw.serve m r pre := by
  unfold Gen.GoSrc.serveMw Mw.serve
  cases m.icfg with
  | none => rfl
  | some icfg => exact serveClosure_eq icfg m.debug r pre

/-- `validatePreflightStatus` as translated = `Validate.status`: the accepted range, the error value with its bounds, and the
stored offset `uint8(status - 200)` (no truncation before the range check). -/
theorem validatePreflightStatus_eq (s : Int) :
    Gen.GoSrc.validatePreflightStatus s =
      (match Validate.status s with | .ok v => (none, v) | .error e => (some e, 0)) := by
  unfold Gen.GoSrc.validatePreflightStatus Validate.status GoRt.uint8 GoRt.nat
  by_cases h0 : s = 0
  · subst h0; decide
  · have hb : (s == 0) = false := by simpa using h0
    simp only [hb, Bool.false_eq_true, if_false]
    by_cases hr : (200 : Int) ≤ s ∧ s ≤ 299
    · have h1 : decide ((200 : Int) ≤ s) = true := by simpa using hr.1
      have h2 : decide (s ≤ (299 : Int)) = true := by simpa using hr.2
      have h3 : (decide (((Facts.cors_validatePreflightStatus_lowerBound : Nat) : Int) ≤ s) && decide (s ≤ ((Facts.cors_validatePreflightStatus_upperBound : Nat) : Int))) = true := by
        simp [Facts.cors_validatePreflightStatus_lowerBound, Facts.cors_validatePreflightStatus_upperBound, hr.1, hr.2]
      simp only [h1, h2, Bool.and_self, Bool.not_true, Bool.false_eq_true, if_false, h3]
      congr 1
      omega
    · have hout : s < 200 ∨ 299 < s := by omega
      have h4 : (decide ((200 : Int) ≤ s) && decide (s ≤ (299 : Int))) = false := by
        rw [Bool.and_eq_false_iff]
        rcases hout with h | h
        · left; simp only [decide_eq_false_iff_not]; omega
        · right; simp only [decide_eq_false_iff_not]; omega
      have h3 : (decide (((Facts.cors_validatePreflightStatus_lowerBound : Nat) : Int) ≤ s) && decide (s ≤ ((Facts.cors_validatePreflightStatus_upperBound : Nat) : Int))) = false := by
        exact h4
      simp only [h3, h4, Bool.not_false, if_true]
      rfl

/-- `validateMaxAge` as translated = `Validate.maxAge`: the accepted range, the error value with its bounds, `-1` as `0`,
`0` as "no header", and the decimal rendering otherwise. -/
theorem validateMaxAge_eq (d : Int) :
    Gen.GoSrc.validateMaxAge d =
      (match Validate.maxAge d with | .ok v => (none, v) | .error e => (some e, [])) := by
  unfold Gen.GoSrc.validateMaxAge Validate.maxAge GoRt.nat GoRt.itoa
  by_cases hout : d < -1 ∨ 86400 < d
  · have h1 : (decide (d < (-1 : Int)) || decide ((86400 : Int) < d)) = true := by
      rcases hout with h | h <;> simp [h]
    have h2 : (decide (d < Facts.cors_validateMaxAge_disableCaching) || decide (((Facts.cors_validateMaxAge_upperBound : Nat) : Int) < d)) = true := h1
    simp only [h1, if_true, h2]
    rfl
  · have h1 : (decide (d < (-1 : Int)) || decide ((86400 : Int) < d)) = false := by
      rw [Bool.or_eq_false_iff]; constructor <;> simp only [decide_eq_false_iff_not] <;> omega
    have h2 : (decide (d < Facts.cors_validateMaxAge_disableCaching) || decide (((Facts.cors_validateMaxAge_upperBound : Nat) : Int) < d)) = false := h1
    simp only [h1, Bool.false_eq_true, if_false, h2]
    by_cases hm : d = -1
    · subst hm; decide
    · have hb : (d == (-1 : Int)) = false := by simpa using hm
      have hb' : (d == Facts.cors_validateMaxAge_disableCaching) = false := hb
      simp only [hb, hb', Bool.false_eq_true, if_false]
      by_cases hz : d = 0
      · subst hz; decide
      · have hz' : (d == (0 : Int)) = false := by simpa using hz
        have hpos : ¬ d < 0 := by omega
        simp only [hz', Bool.false_eq_true, if_false, hpos]

/-- One iteration of the loop of `validateMethods` as translated = `Validate.methodStep`: wildcard, validity before
normalisation, the safelisted free pass, the forbidden test on the normalised name, what is stored. -/
theorem methodStep_eq (st : Validate.MState) (name : Bytes) : Gen.GoSrc.methodStep st name = Validate.methodStep st name := by
  unfold Gen.GoSrc.methodStep Validate.methodStep Validate.star
  cases (name == Facts.headers_ValueWildcard) <;> cases Methods.isValid name <;>
    cases Methods.isSafelisted (Methods.normalize name) <;> cases Methods.isForbidden (Methods.normalize name) <;> rfl

/-- One iteration of the loop of `validateRequestHeaders` as translated = `Validate.reqHdrStep` (the mid-loop flags for `*` and
`Authorization` included). -/
theorem reqHdrStep_eq (credentialed : Bool) (st : Validate.RState) (name : Bytes) :
    Gen.GoSrc.reqHdrStep credentialed st name = Validate.reqHdrStep credentialed st name := by
  unfold Gen.GoSrc.reqHdrStep Validate.reqHdrStep Validate.star
  cases (name == Facts.headers_ValueWildcard) <;> cases Headers.isValid name <;>
    cases (name.lower == Facts.headers_Authorization) <;> cases st.allowAuth <;> cases st.asterisk <;> cases credentialed <;>
    cases Headers.isForbiddenRequestHeaderName name.lower <;> cases Headers.isProhibitedRequestHeaderName name.lower <;> rfl

/-- One iteration of the loop of `validateResponseHeaders` as translated = `Validate.resHdrStep`. -/
theorem resHdrStep_eq (credentialed : Bool) (st : Validate.EState) (name : Bytes) :
    Gen.GoSrc.resHdrStep credentialed st name = Validate.resHdrStep credentialed st name := by
  unfold Gen.GoSrc.resHdrStep Validate.resHdrStep Validate.star
  cases (name == Facts.headers_ValueWildcard) <;> cases credentialed <;> cases Headers.isValid name <;>
    cases Headers.isForbiddenResponseHeaderName name.lower <;> cases Headers.isProhibitedResponseHeaderName name.lower <;>
    cases Headers.isSafelistedResponseHeaderName name.lower <;> simp

/-- Hence the folds over the configured lists are the model's. -/
theorem loops_eq (credentialed : Bool) (names : List Bytes) :
    names.foldl Gen.GoSrc.methodStep {} = names.foldl Validate.methodStep {} ∧
    names.foldl (Gen.GoSrc.reqHdrStep credentialed) {} = names.foldl (Validate.reqHdrStep credentialed) {} ∧
    names.foldl (Gen.GoSrc.resHdrStep credentialed) {} = names.foldl (Validate.resHdrStep credentialed) {} := by
  have h1 : Gen.GoSrc.methodStep = Validate.methodStep := by funext st n; exact methodStep_eq st n
  have h2 : Gen.GoSrc.reqHdrStep credentialed = Validate.reqHdrStep credentialed := by funext st n; exact reqHdrStep_eq credentialed st n
  have h3 : Gen.GoSrc.resHdrStep credentialed = Validate.resHdrStep credentialed := by funext st n; exact resHdrStep_eq credentialed st n
  rw [h1, h2, h3]
  exact ⟨rfl, rfl, rfl⟩

/-- One iteration of the loop of `validateOrigins` as translated = `Validate.originStep`: the `*` incompatibilities, the parse
error, the insecure-origin and public-suffix guards with their tolerance switches — each reported, in that order, none
skipping another — and the insertion into the tree. -/
theorem originStep_eq (ext : Ext) (credentialed pnaAny tolInsecure tolPSL : Bool) (st : Validate.OState) (raw : Bytes) :
    Gen.GoSrc.originStep ext credentialed pnaAny tolInsecure tolPSL st raw =
      Validate.originStep ext credentialed pnaAny tolInsecure tolPSL st raw := by
  unfold Gen.GoSrc.originStep Validate.originStep Validate.star
  cases hw : (raw == Facts.headers_ValueWildcard) with
  | true =>
    have : raw = Facts.headers_ValueWildcard := by simpa using hw
    subst this
    cases credentialed <;> cases pnaAny <;> simp [Facts.headers_ValueWildcard]
  | false =>
    simp only [Bool.false_eq_true, if_false]
    cases hp : Pat.parsePattern ext raw with
    | error r => rfl
    | ok p =>
      simp only []
      cases Pat.isDeemedInsecure p <;> cases tolInsecure <;> cases credentialed <;> cases pnaAny <;>
        cases hk : (p.kind == Kind.subdomains) <;> cases tolPSL <;> cases Pat.hostIsEffectiveTLD ext p <;>
        simp [List.append_assoc, hk]

/-- Hence the fold over the configured origin patterns is the model's. -/
theorem originLoop_eq (ext : Ext) (credentialed pnaAny tolInsecure tolPSL : Bool) (patterns : List Bytes) :
    patterns.foldl (Gen.GoSrc.originStep ext credentialed pnaAny tolInsecure tolPSL) {} =
      patterns.foldl (Validate.originStep ext credentialed pnaAny tolInsecure tolPSL) {} := by
  have h : Gen.GoSrc.originStep ext credentialed pnaAny tolInsecure tolPSL = Validate.originStep ext credentialed pnaAny tolInsecure tolPSL := by
    funext st raw; exact originStep_eq ext credentialed pnaAny tolInsecure tolPSL st raw
  rw [h]

/-- A list with at most one element is its head. -/
theorem toList_head {α : Type} (l : List α) (h : l.length ≤ 1) : l = l.head?.toList := by
  cases l with
  | nil => rfl
  | cons a t => cases t with
    | nil => rfl
    | cons b u => simp at h

theorem fieldErr_len (es : List CfgErr) : (Validate.fieldErr es).length ≤ 1 := by
  unfold Validate.fieldErr; split <;> simp

/-- The order in which `newInternalConfig` accumulates the errors of its validators, as translated, is the order of
`Validate.allErrs` (status, PNA modes, origins, methods, request headers, max-age, response headers). -/
theorem newInternalConfigOrder_eq (ext : Ext) (cfg : Config) :
    Gen.GoSrc.newInternalConfigOrder cfg.pna cfg.pnaNoCors (Validate.statusErrs cfg).head? (Validate.originErrs ext cfg).head?
        (Validate.methodErrs cfg).head? (Validate.reqHdrErrs cfg).head? (Validate.maxAgeErrs cfg).head? (Validate.resHdrErrs cfg).head? =
      Validate.allErrs ext cfg := by
  have h1 : (Validate.statusErrs cfg).length ≤ 1 := by unfold Validate.statusErrs; split <;> simp
  have h2 : (Validate.originErrs ext cfg).length ≤ 1 := by
    unfold Validate.originErrs
    split
    · rename_i he
      unfold Validate.originsResult Validate.origins
      simp [he]
    · exact fieldErr_len _
  have h3 : (Validate.methodErrs cfg).length ≤ 1 := fieldErr_len _
  have h4 : (Validate.reqHdrErrs cfg).length ≤ 1 := fieldErr_len _
  have h5 : (Validate.maxAgeErrs cfg).length ≤ 1 := by unfold Validate.maxAgeErrs; split <;> simp
  have h6 : (Validate.resHdrErrs cfg).length ≤ 1 := fieldErr_len _
  unfold Validate.allErrs Validate.pnaErrs
  conv => rhs; rw [toList_head _ h1, toList_head _ h2, toList_head _ h3, toList_head _ h4, toList_head _ h5, toList_head _ h6]
  unfold Gen.GoSrc.newInternalConfigOrder
  cases (Validate.statusErrs cfg).head? <;> cases (Validate.originErrs ext cfg).head? <;> cases (Validate.methodErrs cfg).head? <;>
    cases (Validate.reqHdrErrs cfg).head? <;> cases (Validate.maxAgeErrs cfg).head? <;> cases (Validate.resHdrErrs cfg).head? <;>
    cases (cfg.pna && cfg.pnaNoCors) <;> simp

/-- Every copy `icfg.f = cfg.F` of `newInternalConfig` happens when exactly one validator (the status one, which reads none of
them) has run: `validateOrigins` and the later validators see the flags they read (credentialed, the PNA modes, the two
tolerance switches). -/
theorem newInternalConfigCopies_before_origins :
    Gen.GoSrc.newInternalConfigCopies.length = 5 ∧ ∀ c ∈ Gen.GoSrc.newInternalConfigCopies, c.take 2 = [49, 58] := by decide

/-- The four decision steps of the preflight pipeline, as translated from the working tree, are the modelled ones. -/
theorem pipeline_eq (icfg : ICfg) (buf : Buf) (reqHdrs : HdrMap) (origin acrm : Bytes) (debug : Bool) :
    Gen.GoSrc.processOriginForPreflight icfg buf origin [origin] = GoRt.result buf (Serve.processOriginForPreflight (modelDec icfg) icfg buf origin) ∧
    Gen.GoSrc.processACRPN icfg buf reqHdrs = GoRt.result buf (Serve.processACRPN icfg buf reqHdrs) ∧
    Gen.GoSrc.processACRM icfg buf acrm [acrm] = GoRt.result buf (Serve.processACRM icfg buf acrm) ∧
    Gen.GoSrc.processACRH icfg buf reqHdrs debug = GoRt.result buf (Serve.processACRH (modelDec icfg) icfg buf reqHdrs debug) :=
  ⟨processOriginForPreflight_eq icfg buf origin, processACRPN_eq icfg buf reqHdrs, processACRM_eq icfg buf acrm,
    processACRH_eq icfg buf reqHdrs debug⟩

/-- The two handlers of requests that are not preflights, as translated from the working tree, are the modelled ones. -/
theorem handlers_eq (icfg : ICfg) (h : HdrMap) (origin : Bytes) (isOPTIONS : Bool) :
    Gen.GoSrc.handleNonCORS icfg h isOPTIONS = Serve.handleNonCORS icfg h isOPTIONS ∧
    Gen.GoSrc.handleCORSActual icfg h origin [origin] isOPTIONS = (Serve.handleCORSActual (modelDec icfg) icfg h origin isOPTIONS, none) :=
  ⟨handleNonCORS_eq icfg h isOPTIONS, handleCORSActual_eq icfg h origin isOPTIONS⟩

end Translated
end Cors
