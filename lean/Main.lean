import CorsVerif.Driver.Codec
import CorsVerif.Spec.Browser
/-
  Line-protocol driver: one tab-separated operation per input line, one output line per
  input line.  Imports the model only (core Lean), so it links as a native executable.
-/
open Cors Cors.Codec Cors.Gen

def respNames : List Bytes :=
  [Facts.headers_Vary, Facts.headers_ACAO, Facts.headers_ACAC, Facts.headers_ACAPN, Facts.headers_ACAM,
   Facts.headers_ACAH, Facts.headers_ACMA, Facts.headers_ACEH]

def encHdrFn (h : HdrMap) (univ : List Bytes) : String :=
  let keys := (sortBy Bytes.lt univ).eraseDups
  encMap (keys.filterMap fun k => (h k).map fun v => (k, v))

def encResp (r : Resp) (pre : List (Bytes × List Bytes)) : String :=
  let st := match r.status with | none => "-" | some s => toString s
  s!"{st}\t{encBool r.next}\t{encHdrFn r.hdrs (pre.map (·.1) ++ respNames)}\tok"

def encOrigin (o : Origin) : String :=
  s!"{encBytes o.scheme} {encBytes o.host.value} {encBool o.host.assumeIP} {o.port}"

def withOracle (orc : String) (origins : List Bytes) (k : Ext → String) : String :=
  match decOracle orc with
  | none => "BAD-ORACLE"
  | some tbl =>
    match oracleMisses tbl origins with
    | [] =>
      match ip6Disagreements tbl with
      | [] => k (extOf tbl)
      | h :: _ => "NETIP-MODEL-DISAGREES " ++ encBytes h
    | m :: _ => "ORACLE-MISS " ++ encBytes m

def opPattern (s orc : String) : String :=
  match decBytes s with
  | none => "BAD-INPUT"
  | some b => withOracle orc [b] fun ext =>
    match Pat.parsePattern ext b with
    | .error r => "err " ++ encOReason r
    | .ok p =>
      let ins := Pat.isDeemedInsecure p
      let etld := p.kind == .subdomains && Pat.hostIsEffectiveTLD ext p
      s!"ok {encBytes p.scheme} {encBytes p.value} {encKind p.kind} {p.port} {encBool ins} {encBool etld}"

def buildTree (ext : Ext) (pats : List Bytes) : Tree :=
  pats.foldl (fun t s => match Pat.parsePattern ext s with
    | .ok p => Tree.insert t p
    | .error _ => t) Node.empty

def opTree (pats orc probes : String) : String :=
  match decList pats, decList probes with
  | some ps, some qs => withOracle orc ps fun ext =>
    let t := buildTree ext ps
    let bits := qs.map fun q => match Lex.parse q with
      | none => "x"
      | some o => if Tree.contains t o then "1" else "0"
    s!"{encBool t.isEmpty} {String.join bits} {encList (Tree.elems t)}"
  | _, _ => "BAD-INPUT"

def opCheck (names lines : String) : String :=
  match decList names, decList lines with
  | some ns, some ls =>
    let set := ns.foldl SortedSet.add {}
    s!"{encBool (Headers.check set ls)} {set.maxLen} {encList set.elems}"
  | _, _ => "BAD-INPUT"

def opTrim (s n : String) : String :=
  match decBytes s, n.toNat? with
  | some b, some n => match Headers.trimOWS b n with
    | none => "none"
    | some t => "some " ++ encBytes t
  | _, _ => "BAD-INPUT"

def opNames (s : String) : String :=
  match decBytes s with
  | none => "BAD-INPUT"
  | some b =>
    let l := b.lower
    let bits := [Headers.isValid b, Headers.isForbiddenRequestHeaderName l, Headers.isProhibitedRequestHeaderName l,
      Headers.isForbiddenResponseHeaderName l, Headers.isProhibitedResponseHeaderName l,
      Headers.isSafelistedResponseHeaderName l, Methods.isValid b, Methods.isForbidden b, Methods.isSafelisted b]
    if b.any (· ≥ 128) then s!"{String.join ((bits.take 7).map encBool)}-- non-ascii"
    else s!"{String.join (bits.map encBool)} {encBytes (Methods.normalize b)} {encBytes l} {encBytes b.upper}"

def opValidate (cfg orc : String) : String :=
  match decConfig cfg with
  | none => "BAD-INPUT"
  | some c => withOracle orc c.origins fun ext =>
    match newInternalConfig ext c with
    | .error e => "err " ++ encErr e ++ " " ++ toString (ETree.leaves e).length
    | .ok icfg => "ok " ++ encConfig (newConfig icfg)

/-- Decision oracles supplied by the Go harness as three characters `PAH`
(`-` = not applicable for this request, read as `false`). -/
def decOfBits (s : String) : Dec :=
  let b (i : Nat) : Bool := (s.toList.drop i).head? == some '1'
  { parses := fun _ => b 0, allowed := fun _ => b 1, acrhOK := fun _ => b 2 }

/-- The model's own decisions on this request, in the same three-character format. -/
def modelBits (icfg : ICfg) (r : Req) : String :=
  let d := Serve.modelDec icfg
  let (p, a) := match r.hdrs.first Facts.headers_Origin with
    | none => ("-", "-")
    | some o => (encBool (d.parses o), encBool (d.allowed o))
  let h := match r.hdrs Facts.headers_ACRH with
    | none => "-"
    | some ls => encBool (icfg.asteriskReqHdrs == false && icfg.allowedReqHdrs.size != 0 && d.acrhOK ls)
  p ++ a ++ h

/-- Response under the model's own decisions, under the harness-supplied decisions, and the
model's decisions. -/
def serveBoth (icfg : Option ICfg) (dbg : Bool) (r : Req) (pre : List (Bytes × List Bytes)) (bits : String) : String :=
  match icfg with
  | none =>
    let resp : Resp := { hdrs := mapOf pre, status := none, next := true }
    s!"{encResp resp pre}\t||\t{encResp resp pre}\t||\t---"
  | some icfg =>
    let strict := Serve.serve icfg dbg r (mapOf pre)
    let viaDec := Serve.serveDec (decOfBits bits) icfg dbg r (mapOf pre)
    s!"{encResp strict pre}\t||\t{encResp viaDec pre}\t||\t{modelBits icfg r}"

def opServe (cfg orc dbg method hdrs pre bits : String) : String :=
  match decConfig cfg, decBool dbg, decBytes method, decMap hdrs, decMap pre with
  | some c, some d, some m, some hs, some pre => withOracle orc c.origins fun ext =>
    match newInternalConfig ext c with
    | .error _ => "cfgerr"
    | .ok icfg => serveBoth (some icfg) d { method := m, hdrs := mapOf hs } pre bits
  | _, _, _, _, _ => "BAD-INPUT"

/-- A recorded response `status|hdrs` (`-` = request not sent). -/
def decResp (s : String) : Option (Option Resp) :=
  if s == "-" then some none else
  match s.splitOn "|" with
  | [st, hs] => do
    let m ← decMap hs
    let status ← if st == "-" then some none else st.toNat?.map some
    pure (some { hdrs := mapOf m, status := status, next := false })
  | _ => none

/-- C02 on the implementation's own responses: the Lean browser (`Browser.verdict`) reads the two
responses the Go middleware gave, and the result is compared with `Browser.permits`. -/
def opIntent (cfg orc dbg origin method names creds pna lines pre act : String) : String :=
  match decConfig cfg, decBool dbg, decBytes origin, decBytes method, decList names, decBool creds, decBool pna,
        decList lines, decResp pre, decResp act with
  | some c, some d, some o, some m, some ns, some cr, some pn, some ls, some preR, some (some actR) =>
    withOracle orc c.origins fun ext =>
      match newInternalConfig ext c with
      | .error _ => "cfgerr"
      | .ok icfg =>
        let i : Browser.Intent := { origin := o, method := m, headerNames := ns, creds := cr, pna := pn }
        let need := Browser.needsPreflight i
        if need != preR.isSome then s!"HARNESS-MISMATCH needsPreflight={need}" else
        let implServer : Req → Resp := fun r =>
          if (r.hdrs Facts.headers_ACRM).isSome then preR.getD { hdrs := HdrMap.empty, status := none, next := false } else actR
        let vImpl := Browser.verdict implServer i ls
        let vModel := Browser.verdict (fun r => Serve.serve icfg d r HdrMap.empty) i ls
        let perm := Browser.permits (Serve.modelDec icfg) icfg i
        if vImpl == perm && vModel == perm then s!"agree permits={perm} preflight={need}"
        else s!"C02-VERDICT browser-on-implementation={vImpl} browser-on-model={vModel} permits={perm}"
  | _, _, _, _, _, _, _, _, _, _ => "BAD-INPUT"

/-- Error trees on the wire: `L<id>` or `J(<tree> <tree> …)`, whitespace-separated. -/
partial def parseETree : List String → Option (ETree Nat × List String)
  | [] => none
  | tok :: rest =>
    if tok == "J(" then
      let rec go (acc : List (ETree Nat)) : List String → Option (ETree Nat × List String)
        | [] => none
        | ")" :: rest => some (.join acc.reverse, rest)
        | toks => match parseETree toks with
          | none => none
          | some (t, rest) => go (t :: acc) rest
      go [] rest
    else if tok.startsWith "L" then (tok.drop 1).toNat?.map fun n => (.leaf n, rest)
    else none

def opErrors (tree brk : String) : String :=
  match parseETree (tree.splitOn " "), brk.toNat? with
  | some (t, []), some k =>
    -- consumer: break when it has seen k items (k = 0 means never break)
    let r := ETree.run t (fun seen => !(k != 0 && seen.length ≥ k))
    s!"{" ".intercalate (r.yielded.map toString)}|{encBool r.afterStop}|{(ETree.leaves t).length}"
  | _, _ => "BAD-INPUT"

structure DState where
  mws : List (String × Mw × List OEntry) := []

def DState.get (s : DState) (id : String) : Mw × List OEntry :=
  match s.mws.find? (·.1 == id) with
  | some (_, m, t) => (m, t)
  | none => (Mw.zero, [])

def DState.put (s : DState) (id : String) (m : Mw) (t : List OEntry) : DState :=
  { mws := (id, m, t) :: s.mws.filter (·.1 != id) }

def encCfgOpt : Option Config → String
  | none => "nil"
  | some c => encConfig c

def step (st : DState) (line : String) : DState × String :=
  match line.splitOn "\t" with
  | ["parse", s] =>
    (st, match decBytes s with
      | none => "BAD-INPUT"
      | some b => match Lex.parse b with
        | none => "none"
        | some o => "some " ++ encOrigin o)
  | ["pattern", s, orc] => (st, opPattern s orc)
  | ["tree", pats, orc, probes] => (st, opTree pats orc probes)
  | ["check", names, lines] => (st, opCheck names lines)
  | ["trim", s, n] => (st, opTrim s n)
  | ["names", s] => (st, opNames s)
  | ["validate", cfg, orc] => (st, opValidate cfg orc)
  | ["serve", cfg, orc, dbg, m, hs, pre, bits] => (st, opServe cfg orc dbg m hs pre bits)
  | ["errors", tree, brk] => (st, opErrors tree brk)
  | ["intent", cfg, orc, dbg, origin, method, names, creds, pna, lines, pre, act] =>
    (st, opIntent cfg orc dbg origin method names creds pna lines pre act)
  | ["h.zero", id] => (st.put id Mw.zero [], "ok")
  | ["h.new", id, cfg, orc] =>
    match decConfig cfg, decOracle orc with
    | some c, some tbl =>
      match oracleMisses tbl c.origins with
      | m :: _ => (st, "ORACLE-MISS " ++ encBytes m)
      | [] => match Mw.new (extOf tbl) c with
        | .error e => (st, "err " ++ toString (ETree.leaves e).length)
        | .ok m => (st.put id m tbl, "ok")
    | _, _ => (st, "BAD-INPUT")
  | ["h.reconf", id, cfg, orc] =>
    let (m, _) := st.get id
    if cfg == "nil" then
      let (_, m') := Mw.reconfigure (extOf []) m none
      (st.put id m' [], "ok")
    else match decConfig cfg, decOracle orc with
    | some c, some tbl =>
      match oracleMisses tbl c.origins with
      | miss :: _ => (st, "ORACLE-MISS " ++ encBytes miss)
      | [] => match Mw.reconfigure (extOf tbl) m (some c) with
        | (some e, m') => (st.put id m' (st.get id).2, "err " ++ toString (ETree.leaves e).length)
        | (none, m') => (st.put id m' tbl, "ok")
    | _, _ => (st, "BAD-INPUT")
  | ["h.debug", id, b] =>
    match decBool b with
    | some b => let (m, t) := st.get id; (st.put id (m.setDebug b) t, "ok")
    | none => (st, "BAD-INPUT")
  | ["h.config", id] => (st, encCfgOpt (st.get id).1.config)
  | ["h.serve", id, m, hs, pre, bits] =>
    match decBytes m, decMap hs, decMap pre with
    | some m, some hs, some pre =>
      let mw := (st.get id).1
      (st, serveBoth mw.icfg mw.debug { method := m, hdrs := mapOf hs } pre bits)
    | _, _, _ => (st, "BAD-INPUT")
  | "pair" :: _ => (st, "ok")   -- relational checks computed on the Go side; the theorems say "ok"
  | _ => (st, "BAD-OP")

partial def loop (hIn : IO.FS.Stream) (hOut : IO.FS.Stream) (st : DState) : IO Unit := do
  let line ← hIn.getLine
  if line.isEmpty then return ()
  let line := if line.endsWith "\n" then (line.dropEnd 1).toString else line
  let (st', out) := step st line
  hOut.putStrLn out
  loop hIn hOut st'

def main : IO Unit := do
  let hIn ← IO.getStdin
  let hOut ← IO.getStdout
  loop hIn hOut {}
  hOut.flush
