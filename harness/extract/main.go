// Command extract regenerates CorsVerif/Gen/Facts.lean from the working tree of /repo.
//
// It is deliberately a *facts* extractor, not a semantics translator: it evaluates named
// constants with go/types, the literal tables (util.NewSet / util.MakeASCIISet / []string{…})
// and a few structural facts (lock regions, header-install sites, loops on the request path).
// Standard library only.
package main

import (
	"bytes"
	"flag"
	"fmt"
	"go/ast"
	"go/constant"
	"go/importer"
	"go/parser"
	"go/token"
	"go/types"
	"os"
	"path/filepath"
	"sort"
	"strings"
)

type pkgInfo struct {
	name  string
	dir   string
	path  string
	files []*ast.File
	info  *types.Info
	pkg   *types.Package
}

var fset = token.NewFileSet()

func loadPkg(imp types.Importer, root, rel, path string) (*pkgInfo, error) {
	dir := filepath.Join(root, rel)
	ents, err := os.ReadDir(dir)
	if err != nil {
		return nil, err
	}
	var files []*ast.File
	for _, e := range ents {
		n := e.Name()
		if e.IsDir() || !strings.HasSuffix(n, ".go") || strings.HasSuffix(n, "_test.go") {
			continue
		}
		f, err := parser.ParseFile(fset, filepath.Join(dir, n), nil, parser.ParseComments)
		if err != nil {
			return nil, err
		}
		// honour build constraints crudely: skip files guarded by the verif tag
		skip := false
		for _, cg := range f.Comments {
			if cg.Pos() > f.Package {
				break
			}
			if strings.Contains(cg.Text(), "go:build verif") {
				skip = true
			}
		}
		if skip {
			continue
		}
		files = append(files, f)
	}
	info := &types.Info{
		Types:      map[ast.Expr]types.TypeAndValue{},
		Defs:       map[*ast.Ident]types.Object{},
		Uses:       map[*ast.Ident]types.Object{},
		Selections: map[*ast.SelectorExpr]*types.Selection{},
	}
	conf := types.Config{Importer: imp, Error: func(err error) {}}
	pkg, err := conf.Check(path, fset, files, info)
	if err != nil && pkg == nil {
		return nil, err
	}
	return &pkgInfo{name: pkg.Name(), dir: dir, path: path, files: files, info: info, pkg: pkg}, nil
}

type fact struct {
	name string
	body string // Lean definition body including type, e.g. ": Nat := 3"
	cmt  string
}

var facts []fact
var seen = map[string]bool{}

func add(name, body, cmt string) {
	if seen[name] {
		return
	}
	seen[name] = true
	facts = append(facts, fact{name, body, cmt})
}

func leanBytes(s string) string {
	var b strings.Builder
	b.WriteString("[")
	for i := 0; i < len(s); i++ {
		if i > 0 {
			b.WriteString(", ")
		}
		fmt.Fprintf(&b, "%d", s[i])
	}
	b.WriteString("]")
	return b.String()
}

func leanBytesList(ss []string) string {
	parts := make([]string, len(ss))
	for i, s := range ss {
		parts[i] = leanBytes(s)
	}
	return "[" + strings.Join(parts, ", ") + "]"
}

func short(s string) string {
	if len(s) > 60 {
		return fmt.Sprintf("%q…", s[:60])
	}
	return fmt.Sprintf("%q", s)
}

// evalString evaluates an expression to a string when it is a constant or a call of
// util.ByteLowercase / util.ByteUppercase on a constant.
func evalString(p *pkgInfo, e ast.Expr) (string, bool) {
	if tv, ok := p.info.Types[e]; ok && tv.Value != nil && tv.Value.Kind() == constant.String {
		return constant.StringVal(tv.Value), true
	}
	if call, ok := e.(*ast.CallExpr); ok && len(call.Args) == 1 {
		fn := calleeName(call)
		if s, ok := evalString(p, call.Args[0]); ok {
			switch fn {
			case "util.ByteLowercase", "ByteLowercase", "strings.ToLower":
				return strings.ToLower(s), true
			case "util.ByteUppercase", "ByteUppercase", "strings.ToUpper":
				return strings.ToUpper(s), true
			case "string":
				return s, true
			}
		}
	}
	return "", false
}

func calleeName(call *ast.CallExpr) string {
	switch f := call.Fun.(type) {
	case *ast.Ident:
		return f.Name
	case *ast.SelectorExpr:
		if x, ok := f.X.(*ast.Ident); ok {
			return x.Name + "." + f.Sel.Name
		}
		return "?." + f.Sel.Name
	}
	return "?"
}

func enclosingFunc(f *ast.File, pos token.Pos) string {
	for _, d := range f.Decls {
		if fd, ok := d.(*ast.FuncDecl); ok && fd.Pos() <= pos && pos <= fd.End() {
			return fd.Name.Name
		}
	}
	return ""
}

func extractConstsAndTables(p *pkgInfo) {
	// constants (package level and function local)
	type item struct {
		name string
		obj  *types.Const
		pos  token.Pos
	}
	var items []item
	for id, obj := range p.info.Defs {
		c, ok := obj.(*types.Const)
		if !ok || id.Name == "_" {
			continue
		}
		name := p.name + "_" + id.Name
		if c.Parent() != p.pkg.Scope() {
			for _, f := range p.files {
				if f.Pos() <= id.Pos() && id.Pos() <= f.End() {
					name = p.name + "_" + enclosingFunc(f, id.Pos()) + "_" + id.Name
				}
			}
		}
		items = append(items, item{name, c, id.Pos()})
	}
	sort.Slice(items, func(i, j int) bool { return items[i].name < items[j].name })
	for _, it := range items {
		v := it.obj.Val()
		switch v.Kind() {
		case constant.Int:
			if n, ok := constant.Int64Val(v); ok {
				if n >= 0 {
					add(it.name, fmt.Sprintf(": Nat := %d", n), "")
				} else {
					add(it.name, fmt.Sprintf(": Int := %d", n), "")
				}
			}
		case constant.String:
			s := constant.StringVal(v)
			add(it.name, ": Bytes := "+leanBytes(s), short(s))
		}
	}
	// tables
	for _, f := range p.files {
		for _, d := range f.Decls {
			gd, ok := d.(*ast.GenDecl)
			if !ok || gd.Tok != token.VAR {
				continue
			}
			for _, sp := range gd.Specs {
				vs := sp.(*ast.ValueSpec)
				for i, id := range vs.Names {
					if i >= len(vs.Values) {
						continue
					}
					name := p.name + "_" + id.Name
					switch v := vs.Values[i].(type) {
					case *ast.CallExpr:
						switch calleeName(v) {
						case "util.NewSet", "NewSet":
							var elems []string
							okAll := true
							for _, a := range v.Args {
								s, ok := evalString(p, a)
								if !ok {
									okAll = false
								}
								elems = append(elems, s)
							}
							if okAll {
								add(name, ": List Bytes := "+leanBytesList(elems), fmt.Sprintf("util.NewSet, %d elements, source order", len(elems)))
							}
						case "util.MakeASCIISet", "MakeASCIISet":
							if len(v.Args) == 1 {
								if s, ok := evalString(p, v.Args[0]); ok {
									add(name, ": List Nat := "+leanBytes(s), "util.MakeASCIISet "+short(s))
								}
							}
						}
					case *ast.CompositeLit:
						// []string{…} singletons
						var elems []string
						okAll := len(v.Elts) > 0
						for _, a := range v.Elts {
							s, ok := evalString(p, a)
							if !ok {
								okAll = false
							}
							elems = append(elems, s)
						}
						if okAll {
							add(name, ": List Bytes := "+leanBytesList(elems), "[]string literal")
						}
					}
				}
			}
		}
	}
}

func main() {
	repo := flag.String("repo", "/repo", "path of the jub0bs/cors working tree")
	out := flag.String("out", "", "output Lean file")
	flag.Parse()
	if *out != "" {
		if abs, err := filepath.Abs(*out); err == nil {
			*out = abs
		}
	}
	if err := os.Chdir(*repo); err != nil {
		fatal(err)
	}
	imp := importer.ForCompiler(fset, "source", nil)
	const mod = "github.com/jub0bs/cors"
	rels := []struct{ rel, path string }{
		{"internal/util", mod + "/internal/util"},
		{"internal/headers", mod + "/internal/headers"},
		{"internal/methods", mod + "/internal/methods"},
		{"internal/origins", mod + "/internal/origins"},
		{"cfgerrors", mod + "/cfgerrors"},
		{".", mod},
	}
	pkgs := map[string]*pkgInfo{}
	for _, r := range rels {
		p, err := loadPkg(imp, *repo, r.rel, r.path)
		if err != nil {
			fatal(fmt.Errorf("load %s: %w", r.rel, err))
		}
		pkgs[p.name] = p
		if p.name != "cfgerrors" {
			extractConstsAndTables(p)
		}
	}
	structural(pkgs)
	indexSites(pkgs)
	ixBodies(pkgs)
	caseMapSites(pkgs)
	errorTemplates(pkgs)
	receiverMutators(pkgs)
	cfgSkeletons(pkgs)
	if p := pkgs["cors"]; p != nil {
		icfgWrites(p)
	}

	var buf bytes.Buffer
	buf.WriteString("/- GENERATED by /verif/harness/extract from the working tree of /repo. Do not edit. -/\n")
	buf.WriteString("import CorsVerif.Model.Basic\n\nnamespace Cors.Gen.Facts\n\n")
	for _, f := range facts {
		if f.cmt != "" {
			fmt.Fprintf(&buf, "/-- %s -/\n", strings.ReplaceAll(f.cmt, "-/", "- /"))
		}
		fmt.Fprintf(&buf, "def %s %s\n", f.name, f.body)
	}
	buf.WriteString("\nend Cors.Gen.Facts\n")
	if *out == "" {
		os.Stdout.Write(buf.Bytes())
		os.Stdout.WriteString(translatePipeline(pkgs))
		return
	}
	// the translated pipeline steps go next to the facts
	pipe := []byte(translatePipeline(pkgs))
	pipePath := filepath.Join(filepath.Dir(*out), "Pipeline.lean")
	if old, err := os.ReadFile(pipePath); err != nil || !bytes.Equal(old, pipe) {
		if err := os.WriteFile(pipePath, pipe, 0o644); err != nil {
			fatal(err)
		}
	}
	if old, err := os.ReadFile(*out); err == nil && bytes.Equal(old, buf.Bytes()) {
		return // keep mtime: nothing changed
	}
	if err := os.WriteFile(*out, buf.Bytes(), 0o644); err != nil {
		fatal(err)
	}
}

func fatal(err error) {
	fmt.Fprintln(os.Stderr, "extract:", err)
	os.Exit(2)
}
