package main

import (
	"bytes"
	"go/ast"
	"go/printer"
	"go/types"
	"sort"
)

// indexSites: every index and slice expression on a string, slice or array in the non-test code
// (map look-ups and generic instantiations excluded), as "pkg.func|expression".  C17 pins this list:
// each site is audited against a guard or a proved precondition (Props/C17.lean).
func indexSites(pkgs map[string]*pkgInfo) {
	var sites []string
	for _, p := range pkgs {
		for _, f := range p.files {
			ast.Inspect(f, func(n ast.Node) bool {
				var x ast.Expr
				switch e := n.(type) {
				case *ast.IndexExpr:
					x = e.X
				case *ast.SliceExpr:
					x = e.X
				default:
					return true
				}
				tv, ok := p.info.Types[x]
				if !ok || tv.Type == nil || !tv.IsValue() {
					return true
				}
				switch u := tv.Type.Underlying().(type) {
				case *types.Map:
					return true
				case *types.Basic:
					if u.Info()&types.IsString == 0 {
						return true
					}
				case *types.Slice, *types.Array:
				case *types.Pointer:
					if _, isArr := u.Elem().Underlying().(*types.Array); !isArr {
						return true
					}
				default:
					return true
				}
				var b bytes.Buffer
				printer.Fprint(&b, fset, n.(ast.Expr))
				sites = append(sites, p.name+"."+enclosingFunc(f, n.Pos())+"|"+b.String())
				return true
			})
		}
	}
	sort.Strings(sites)
	add("cors_indexSites", ": List Bytes := "+leanBytesList(sites),
		"every index / slice expression on a string, slice or array in the non-test code: pkg.func|expression (sorted)")
}
