package main

import (
	"bytes"
	"crypto/sha256"
	"encoding/hex"
	"go/ast"
	"go/constant"
	"go/printer"
	"go/token"
	"go/types"
	"regexp"
	"sort"
	"strings"
)

func exprText(n ast.Node) string {
	var b bytes.Buffer
	printer.Fprint(&b, fset, n)
	return strings.Join(strings.Fields(b.String()), " ")
}

// terminates: the statement list certainly leaves the enclosing block (return, continue, break, goto, panic).
func terminates(list []ast.Stmt) bool {
	if len(list) == 0 {
		return false
	}
	switch s := list[len(list)-1].(type) {
	case *ast.ReturnStmt:
		return true
	case *ast.BranchStmt:
		return s.Tok == token.CONTINUE || s.Tok == token.BREAK || s.Tok == token.GOTO
	case *ast.ExprStmt:
		if c, ok := s.X.(*ast.CallExpr); ok {
			if id, ok := c.Fun.(*ast.Ident); ok && id.Name == "panic" {
				return true
			}
		}
	}
	return false
}

// earlier: the negated conditions of the `if cond { … leave }` statements (without else) that precede stmt in list.
func earlier(list []ast.Stmt, child ast.Node) []string {
	var out []string
	for _, st := range list {
		if st == child {
			break
		}
		if is, ok := st.(*ast.IfStmt); ok && is.Else == nil && terminates(is.Body.List) {
			out = append(out, "!("+exprText(is.Cond)+")")
		}
	}
	return out
}

// guardsOf: the conditions that syntactically dominate the node at the top of the stack, outermost first:
// left operands of the `&&` (negated: `||`) chains it is a right operand of, conditions of the enclosing if / for
// statements (negated in else branches), case expressions, and the negations of earlier leave-if-guards in the enclosing blocks.
func guardsOf(stack []ast.Node) []string {
	var rev [][]string
	for k := len(stack) - 2; k >= 0; k-- {
		a, c := stack[k], stack[k+1]
		var g []string
		switch a := a.(type) {
		case *ast.FuncDecl, *ast.FuncLit:
			k = -1
		case *ast.BinaryExpr:
			if a.Y == c && a.Op == token.LAND {
				g = []string{exprText(a.X)}
			} else if a.Y == c && a.Op == token.LOR {
				g = []string{"!(" + exprText(a.X) + ")"}
			}
		case *ast.IfStmt:
			if a.Body == c {
				g = []string{exprText(a.Cond)}
			} else if a.Else == c {
				g = []string{"!(" + exprText(a.Cond) + ")"}
			}
		case *ast.ForStmt:
			if a.Body == c && a.Cond != nil {
				g = []string{"for " + exprText(a.Cond)}
			}
		case *ast.RangeStmt:
			if a.Body == c {
				h := "range " + exprText(a.X)
				if a.Key != nil {
					h = exprText(a.Key) + " := " + h
				}
				g = []string{h}
			}
		case *ast.BlockStmt:
			g = earlier(a.List, c)
		case *ast.CaseClause:
			isBody := false
			for _, st := range a.Body {
				if st == c {
					isBody = true
				}
			}
			if isBody {
				var es []string
				for _, e := range a.List {
					es = append(es, exprText(e))
				}
				if a.List == nil {
					es = []string{"default"}
				}
				g = append([]string{"case " + strings.Join(es, ", ")}, earlier(a.Body, c)...)
			}
		case *ast.SwitchStmt:
			if a.Tag != nil && a.Body == c {
				g = []string{"switch " + exprText(a.Tag)}
			}
		}
		if len(g) > 0 {
			rev = append(rev, g)
		}
	}
	var out []string
	for k := len(rev) - 1; k >= 0; k-- {
		out = append(out, rev[k]...)
	}
	return out
}

// indexSites: every index and slice expression on a string, slice or array in the non-test code
// (map look-ups and generic instantiations excluded), as "pkg.func|expression|guards", the guards being the
// conditions that syntactically dominate the expression (guardsOf).  C17 pins this list: each site is audited
// against its guards or a proved precondition (Props/C17.lean); a dropped, weakened or reordered guard changes the fact.
func indexSites(pkgs map[string]*pkgInfo) {
	var sites []string
	for _, p := range pkgs {
		for _, f := range p.files {
			var stack []ast.Node
			ast.Inspect(f, func(n ast.Node) bool {
				if n == nil {
					stack = stack[:len(stack)-1]
					return true
				}
				stack = append(stack, n)
				var x ast.Expr
				switch e := n.(type) {
				case *ast.IndexExpr:
					x = e.X
				case *ast.SliceExpr:
					x = e.X
				default:
					return true
				}
				tv, ok := p.info.Types[x]
				if !ok || tv.Type == nil || !tv.IsValue() {
					return true
				}
				switch u := tv.Type.Underlying().(type) {
				case *types.Map:
					return true
				case *types.Basic:
					if u.Info()&types.IsString == 0 {
						return true
					}
				case *types.Slice, *types.Array:
				case *types.Pointer:
					if _, isArr := u.Elem().Underlying().(*types.Array); !isArr {
						return true
					}
				default:
					return true
				}
				sites = append(sites, p.name+"."+enclosingFunc(f, n.Pos())+"|"+exprText(n)+"|"+strings.Join(guardsOf(stack), " ; "))
				return true
			})
		}
	}
	sort.Strings(sites)
	add("cors_indexSites", ": List Bytes := "+leanBytesList(sites),
		"every index / slice expression on a string, slice or array in the non-test code with its dominating conditions: pkg.func|expression|guards (sorted)")
}

var lineComment = regexp.MustCompile(`(?m)//.*$`)

// codeText: the printed node without line comments (doc comments of declarations inside a body survive the
// printer), white space normalised.
func codeText(n ast.Node) string {
	var b bytes.Buffer
	printer.Fprint(&b, fset, n)
	return strings.Join(strings.Fields(lineComment.ReplaceAllString(b.String(), "")), " ")
}

// ixBodies: the statement-by-statement text (comments dropped, white space normalised) of the functions that
// Model/Ix.lean and Model/IxTree.lean transliterate with checked index and slice operations.  C17 pins it: the index-level model was
// written from exactly this text, so an edit of one of these bodies breaks the obligation and the check searches
// for a failing input.
func ixBodies(pkgs map[string]*pkgInfo) {
	want := []string{
		"origins.parseScheme", "origins.parsePort", "origins.fastParseHost", "origins.lastByte",
		"origins.splitAtCommonSuffix", "headers.TrimOWS", "headers.trimLeftOWS", "headers.trimRightOWS",
		"headers.cutAtComma", "headers.First", "origins.insert", "util.MakeASCIISet", "util.(*ASCIISet).Contains", "headers.Check", "util.(SortedSet).IndexAfter", "origins.Parse", "origins.(*Tree).Contains", "origins.(*node).contains",
		"origins.(*Tree).Insert", "origins.(*node).add", "origins.(*node).upsertEdge", "origins.deleteSameSign", "origins.(*node).elems", "origins.(*Tree).Elems",
		"origins.parseHostPattern", "origins.(*HostPattern).hostOnly", "origins.peekKind",
	}
	found := map[string]string{}
	for _, p := range pkgs {
		for _, f := range p.files {
			for _, d := range f.Decls {
				fd, ok := d.(*ast.FuncDecl)
				if !ok || fd.Body == nil {
					continue
				}
				key := p.name + "." + fd.Name.Name
				if fd.Recv != nil && len(fd.Recv.List) == 1 {
					key = p.name + ".(" + exprText(fd.Recv.List[0].Type) + ")." + fd.Name.Name
				}
				found[key] = exprText(fd.Type) + " " + codeText(fd.Body)
			}
		}
	}
	var out, texts []string
	for _, w := range want {
		body, ok := found[w]
		if !ok {
			body = "<missing>"
		}
		sum := sha256.Sum256([]byte(body))
		out = append(out, w+"|"+hex.EncodeToString(sum[:12]))
		texts = append(texts, "     "+w+"|"+strings.ReplaceAll(body, "-/", "- /"))
	}
	add("cors_ixBodies", ": List Bytes := "+leanBytesList(out),
		"fingerprints (SHA-256, first 12 bytes) of the text of the functions modelled at index level (Model/Ix.lean): pkg.func|hash of `signature body`, comments dropped, white space normalised. The texts:\n"+strings.Join(texts, "\n"))
}

// caseMapSites: every call, in the non-test code, of a function whose model is the ASCII byte map although the
// library function behind it (strings.ToLower / strings.ToUpper) maps Unicode: util.ByteLowercase,
// util.ByteUppercase, methods.Normalize, methods.IsForbidden (which upper-cases its argument), strings.ToLower,
// strings.ToUpper — as "pkg.func|call|guards" (guardsOf), or "pkg.func|call|const=<value>" when the argument is a
// constant.  The model is only right on ASCII input; the audited list (Props/C04.lean) records, per site, the
// validity test that dominates it.  A new call site, a dropped or reordered test changes the fact.
func caseMapSites(pkgs map[string]*pkgInfo) {
	watched := map[string]bool{
		"util.ByteLowercase": true, "util.ByteUppercase": true, "methods.Normalize": true, "methods.IsForbidden": true,
		"strings.ToLower": true, "strings.ToUpper": true, "strings.EqualFold": true, "strings.Title": true,
	}
	var sites, consts []string
	for _, p := range pkgs {
		for _, f := range p.files {
			var stack []ast.Node
			ast.Inspect(f, func(n ast.Node) bool {
				if n == nil {
					stack = stack[:len(stack)-1]
					return true
				}
				stack = append(stack, n)
				call, ok := n.(*ast.CallExpr)
				if !ok {
					return true
				}
				var name string
				switch fn := call.Fun.(type) {
				case *ast.SelectorExpr:
					if id, ok := fn.X.(*ast.Ident); ok {
						name = id.Name + "." + fn.Sel.Name
					}
				case *ast.Ident:
					name = p.name + "." + fn.Name
				}
				if !watched[name] || len(call.Args) == 0 {
					return true
				}
				where := p.name + "." + enclosingFunc(f, n.Pos())
				if tv, ok := p.info.Types[call.Args[0]]; ok && tv.Value != nil && tv.Value.Kind() == constant.String {
					v := constant.StringVal(tv.Value)
					consts = append(consts, v)
					sites = append(sites, where+"|"+exprText(n)+"|const="+v)
					return true
				}
				sites = append(sites, where+"|"+exprText(n)+"|"+strings.Join(guardsOf(stack), " ; "))
				return true
			})
		}
	}
	sort.Strings(sites)
	sort.Strings(consts)
	add("cors_caseMapSites", ": List Bytes := "+leanBytesList(sites),
		"every call of a case-mapping function that the model treats as an ASCII byte map, with its dominating conditions or its constant argument: pkg.func|call|guards (sorted)")
	add("cors_caseMapConstArgs", ": List Bytes := "+leanBytesList(consts), "the constant arguments of those calls (sorted)")
}

// errorTemplates: for every `Error() string` method of package cfgerrors, the constant each `return` starts from: a
// string literal / constant, or the constant format of a `fmt.Sprintf(format, …)` — "Type|text"; "<not-constant>" for a
// return of any other shape.  C05 proves that each begins with `cors: ` (and a format that begins so yields a message that
// begins so).
func errorTemplates(pkgs map[string]*pkgInfo) {
	p := pkgs["cfgerrors"]
	if p == nil {
		return
	}
	var out []string
	for _, f := range p.files {
		for _, d := range f.Decls {
			fd, ok := d.(*ast.FuncDecl)
			if !ok || fd.Body == nil || fd.Name.Name != "Error" || fd.Recv == nil || len(fd.Recv.List) != 1 {
				continue
			}
			recv := exprText(fd.Recv.List[0].Type)
			ast.Inspect(fd.Body, func(n ast.Node) bool {
				if _, isLit := n.(*ast.FuncLit); isLit {
					return false
				}
				rs, ok := n.(*ast.ReturnStmt)
				if !ok || len(rs.Results) != 1 {
					return true
				}
				e := rs.Results[0]
				text := "<not-constant>"
				if tv, ok := p.info.Types[e]; ok && tv.Value != nil && tv.Value.Kind() == constant.String {
					text = constant.StringVal(tv.Value)
				} else if call, ok := e.(*ast.CallExpr); ok && exprText(call.Fun) == "fmt.Sprintf" && len(call.Args) > 0 {
					if tv, ok := p.info.Types[call.Args[0]]; ok && tv.Value != nil && tv.Value.Kind() == constant.String {
						text = constant.StringVal(tv.Value)
					}
				}
				out = append(out, recv+"|"+text)
				return true
			})
		}
	}
	sort.Strings(out)
	add("cfgerrors_messageTemplates", ": List Bytes := "+leanBytesList(out),
		"the constant every return of an Error() method of cfgerrors starts from (literal, or format of fmt.Sprintf): Type|text (sorted)")
}

// receiverMutators: every method of the library packages that writes through its receiver — an assignment or ++/-- whose
// left side is rooted at the receiver (recv.f = …, recv.f[i] = …, *recv = …), or a call, on something rooted at the
// receiver, of a method already in the set (fixpoint by method name within the package) — as "pkg.(recvType).method".
// C07 pins the list: the values reachable from a published configuration (tree, sets) are written only by these
// construction-time methods; a method that starts to write (a memo in Elems, say) changes the fact.
func receiverMutators(pkgs map[string]*pkgInfo) {
	aliases := map[string]bool{}                           // locals of the method under inspection that point into the receiver (n := &t.root; child := &n.children[i])
	rooted := func(e ast.Expr, recv string) (bool, bool) { // (rooted at recv, more than the bare identifier)
		depth := 0
		for {
			switch x := e.(type) {
			case *ast.Ident:
				if aliases[x.Name] {
					return true, depth > 0 // re-pointing the local itself is not a write
				}
				return x.Name == recv, depth > 0
			case *ast.UnaryExpr:
				if x.Op != token.AND {
					return false, false
				}
				e = x.X
				continue
			case *ast.SelectorExpr:
				e = x.X
			case *ast.IndexExpr:
				e = x.X
			case *ast.StarExpr:
				e = x.X
			case *ast.ParenExpr:
				e = x.X
			case *ast.SliceExpr:
				e = x.X
			default:
				return false, false
			}
			depth++
		}
	}
	var out []string
	for _, p := range pkgs {
		type meth struct {
			key, name, recv string
			fd              *ast.FuncDecl
		}
		var ms []meth
		for _, f := range p.files {
			for _, d := range f.Decls {
				fd, ok := d.(*ast.FuncDecl)
				if !ok || fd.Body == nil || fd.Recv == nil || len(fd.Recv.List) != 1 || len(fd.Recv.List[0].Names) != 1 {
					continue
				}
				ms = append(ms, meth{p.name + ".(" + exprText(fd.Recv.List[0].Type) + ")." + fd.Name.Name, fd.Name.Name, fd.Recv.List[0].Names[0].Name, fd})
			}
		}
		mut := map[string]bool{} // method names
		keys := map[string]bool{}
		for changed := true; changed; {
			changed = false
			for _, m := range ms {
				if keys[m.key] {
					continue
				}
				writes := false
				for k := range aliases {
					delete(aliases, k)
				}
				for round := 0; round < 3; round++ {
					ast.Inspect(m.fd.Body, func(n ast.Node) bool {
						if s, ok := n.(*ast.AssignStmt); ok && len(s.Lhs) == len(s.Rhs) {
							for i, lhs := range s.Lhs {
								id, isID := lhs.(*ast.Ident)
								if !isID || id.Name == "_" {
									continue
								}
								rhs := s.Rhs[i]
								if u, isU := rhs.(*ast.UnaryExpr); isU && u.Op == token.AND {
									if r, _ := rooted(u.X, m.recv); r {
										aliases[id.Name] = true
									}
								} else if c, isC := rhs.(*ast.CallExpr); isC {
									// a pointer returned by a mutator called on something rooted at the receiver (child = n.upsertEdge(...))
									if sel, ok := c.Fun.(*ast.SelectorExpr); ok && mut[sel.Sel.Name] {
										if r, _ := rooted(sel.X, m.recv); r {
											aliases[id.Name] = true
										}
									}
								}
							}
						}
						return true
					})
				}
				ast.Inspect(m.fd.Body, func(n ast.Node) bool {
					switch s := n.(type) {
					case *ast.AssignStmt:
						if s.Tok == token.DEFINE {
							return true
						}
						for _, lhs := range s.Lhs {
							if r, deep := rooted(lhs, m.recv); r && deep {
								writes = true
							}
						}
					case *ast.IncDecStmt:
						if r, deep := rooted(s.X, m.recv); r && deep {
							writes = true
						}
					case *ast.CallExpr:
						if sel, ok := s.Fun.(*ast.SelectorExpr); ok && mut[sel.Sel.Name] {
							if r, _ := rooted(sel.X, m.recv); r {
								writes = true
							}
						}
					}
					return true
				})
				if writes {
					keys[m.key], mut[m.name], changed = true, true, true
				}
			}
		}
		for k := range keys {
			out = append(out, k)
		}
	}
	sort.Strings(out)
	add("cors_receiverMutators", ": List Bytes := "+leanBytesList(out),
		"every method that writes through its receiver (directly or by calling such a method on something rooted at the receiver): pkg.(recvType).method (sorted)")
}

// cfgSkeletons: the text of the parts of config.go that stay hand-modelled next to the translated loop bodies: the four list
// validators with their `for … range` loop replaced by `<loop>` (prologue, declarations, epilogue), and the whole of
// newInternalConfig and newConfig — as "func|text" with comments dropped and white space normalised.  C05 / C06 pin them.
func cfgSkeletons(pkgs map[string]*pkgInfo) {
	p := pkgs["cors"]
	if p == nil {
		return
	}
	var out, texts []string
	for _, w := range []string{"validateOrigins", "validateMethods", "validateRequestHeaders", "validateResponseHeaders", "newInternalConfig", "newConfig"} {
		text := "<missing>"
		for _, f := range p.files {
			for _, d := range f.Decls {
				fd, ok := d.(*ast.FuncDecl)
				if !ok || fd.Body == nil || fd.Name.Name != w {
					continue
				}
				var parts []string
				for _, st := range fd.Body.List {
					if _, isLoop := st.(*ast.RangeStmt); isLoop && strings.HasPrefix(w, "validate") {
						parts = append(parts, "<loop>")
					} else {
						parts = append(parts, codeText(st))
					}
				}
				text = exprText(fd.Type) + " { " + strings.Join(parts, " ; ") + " }"
			}
		}
		sum := sha256.Sum256([]byte(text))
		out = append(out, w+"|"+hex.EncodeToString(sum[:12]))
		texts = append(texts, "     "+w+"|"+strings.ReplaceAll(text, "-/", "- /"))
	}
	add("cors_cfgSkeletons", ": List Bytes := "+leanBytesList(out),
		"fingerprints (SHA-256, first 12 bytes) of the hand-modelled parts of config.go: validators with their loop replaced by <loop>, newInternalConfig, newConfig. The texts:\n"+strings.Join(texts, "\n"))
}
