package main

import (
	"fmt"
	"go/ast"
	"go/token"
	"go/types"
	"sort"
	"strings"
)

// More structural facts: lock regions (C07/C08), writes and header installs on the request path
// (C07/C12), defensive copies in newConfig (C12), loops on the request path (C18).

func moreStructural(pkgs map[string]*pkgInfo) {
	p := pkgs["cors"]
	lockFacts(p)
	requestPath(pkgs)
	newConfigFacts(p)
}

// leanStrList encodes a list of strings as `List Bytes` (byte lists reduce in the kernel, so the
// theorems over these facts are closed by `decide`); the readable form goes into the doc comment.
func leanStrList(ss []string) string {
	return leanBytesList(ss)
}

// leanRows encodes rows of `|`-separated fields as `List (List Bytes)`.
func leanRows(rows []string) string {
	parts := make([]string, len(rows))
	for i, r := range rows {
		parts[i] = leanBytesList(strings.Split(r, "|"))
	}
	return "[" + strings.Join(parts, ", ") + "]"
}

func readable(ss []string) string { return strings.Join(ss, " ; ") }

// ---------------------------------------------------------------- lock facts

// isMiddlewareField reports whether e is `x.icfg` / `x.debug` / `x.mu` for x of type (*)Middleware,
// and whether x is the method receiver or a parameter (shared) rather than a local variable.
func isMiddlewareField(p *pkgInfo, e ast.Expr) (field string, shared bool, ok bool) {
	sel, isSel := e.(*ast.SelectorExpr)
	if !isSel {
		return "", false, false
	}
	id, isId := sel.X.(*ast.Ident)
	if !isId {
		return "", false, false
	}
	obj := p.info.Uses[id]
	if obj == nil {
		return "", false, false
	}
	t := obj.Type()
	if pt, isPtr := t.(*types.Pointer); isPtr {
		t = pt.Elem()
	}
	named, isNamed := t.(*types.Named)
	if !isNamed || named.Obj().Name() != "Middleware" {
		return "", false, false
	}
	_, isPtr := obj.Type().(*types.Pointer)
	return sel.Sel.Name, isPtr, true
}

// linearise walks a function body in source order and emits lock operations, accesses to the
// shared fields and returns. Within an assignment, right-hand sides come before left-hand sides.
func linearise(p *pkgInfo, body ast.Node) []string {
	var out []string
	var walk func(n ast.Node)
	emitExpr := func(e ast.Expr, write bool) {
		ast.Inspect(e, func(n ast.Node) bool {
			if call, ok := n.(*ast.CallExpr); ok {
				if sel, ok := call.Fun.(*ast.SelectorExpr); ok {
					if f, _, ok := isMiddlewareField(p, sel.X); ok && f == "mu" {
						switch sel.Sel.Name {
						case "Lock":
							out = append(out, "lock")
						case "Unlock":
							out = append(out, "unlock")
						case "RLock":
							out = append(out, "rlock")
						case "RUnlock":
							out = append(out, "runlock")
						}
						return false
					}
				}
			}
			if ex, ok := n.(ast.Expr); ok {
				if f, shared, ok := isMiddlewareField(p, ex); ok && f != "mu" {
					kind := "r:"
					if write {
						kind = "w:"
					}
					if !shared {
						kind = "local-" + kind
					}
					out = append(out, kind+f)
					return false
				}
			}
			if _, ok := n.(*ast.FuncLit); ok {
				return false
			}
			return true
		})
	}
	walk = func(n ast.Node) {
		switch s := n.(type) {
		case nil:
		case *ast.BlockStmt:
			for _, st := range s.List {
				walk(st)
			}
		case *ast.AssignStmt:
			for _, r := range s.Rhs {
				emitExpr(r, false)
			}
			for _, l := range s.Lhs {
				if _, _, ok := isMiddlewareField(p, l); ok {
					emitExpr(l, true)
				} else {
					emitExpr(l, false)
				}
			}
		case *ast.ExprStmt:
			emitExpr(s.X, false)
		case *ast.ReturnStmt:
			for _, r := range s.Results {
				emitExpr(r, false)
			}
			out = append(out, "return")
		case *ast.IfStmt:
			walk(s.Init)
			emitExpr(s.Cond, false)
			walk(s.Body)
			if s.Else != nil {
				walk(s.Else)
			}
		case *ast.DeclStmt:
			// var declarations: initialisers
			ast.Inspect(s, func(n ast.Node) bool {
				if vs, ok := n.(*ast.ValueSpec); ok {
					for _, v := range vs.Values {
						emitExpr(v, false)
					}
				}
				return true
			})
		case *ast.DeferStmt:
			out = append(out, "defer")
			emitExpr(s.Call, false)
		case *ast.GoStmt:
			out = append(out, "go")
		case *ast.ForStmt:
			out = append(out, "loop")
			walk(s.Body)
		case *ast.RangeStmt:
			out = append(out, "loop")
			walk(s.Body)
		case *ast.SwitchStmt:
			walk(s.Init)
			if s.Tag != nil {
				emitExpr(s.Tag, false)
			}
			walk(s.Body)
		case *ast.CaseClause:
			for _, e := range s.List {
				emitExpr(e, false)
			}
			for _, st := range s.Body {
				walk(st)
			}
		default:
			// any other statement: scan for accesses conservatively
			if st, ok := n.(ast.Stmt); ok {
				ast.Inspect(st, func(n ast.Node) bool {
					if ex, ok := n.(ast.Expr); ok {
						if f, _, ok := isMiddlewareField(p, ex); ok && f != "mu" {
							out = append(out, "r:"+f)
							return false
						}
					}
					return true
				})
			}
		}
	}
	walk(body)
	return out
}

func lockFacts(p *pkgInfo) {
	var touching []string
	for _, f := range p.files {
		for _, d := range f.Decls {
			fd, ok := d.(*ast.FuncDecl)
			if !ok || fd.Body == nil {
				continue
			}
			if fd.Name.Name == "Wrap" {
				// the handler is the function literal returned by Wrap
				ast.Inspect(fd.Body, func(n ast.Node) bool {
					if fl, ok := n.(*ast.FuncLit); ok {
						seq := linearise(p, fl.Body)
						add("cors_prog_Wrap", ": List Bytes := "+leanStrList(trimTail(seq)), "lock operations and shared-field accesses of the handler returned by Wrap, in source order: "+readable(trimTail(seq)))
						touching = append(touching, "Wrap")
						return false
					}
					return true
				})
				continue
			}
			seq := linearise(p, fd.Body)
			touches := false
			for _, s := range seq {
				if strings.Contains(s, ":") || strings.Contains(s, "lock") {
					touches = true
				}
			}
			if touches {
				add("cors_prog_"+fd.Name.Name, ": List Bytes := "+leanStrList(trimTail(seq)), "lock operations and shared-field accesses of "+fd.Name.Name+", in source order: "+readable(trimTail(seq)))
				touching = append(touching, fd.Name.Name)
			}
		}
	}
	sort.Strings(touching)
	add("cors_sharedStateFunctions", ": List Bytes := "+leanStrList(touching), "functions that mention the mutex or the fields it guards: "+readable(touching))
}

// trimTail drops everything after the last lock operation or shared access except one "return".
func trimTail(seq []string) []string {
	last := -1
	for i, s := range seq {
		if s != "return" && s != "loop" {
			last = i
		}
	}
	out := append([]string{}, seq[:last+1]...)
	for _, s := range seq[last+1:] {
		if s == "return" {
			out = append(out, "return")
			break
		}
	}
	return out
}

// ---------------------------------------------------------------- request path

var requestPathRoots = []string{"handleNonCORS", "handleCORSPreflight", "handleCORSActual", "processOriginForPreflight", "processACRPN", "processACRM", "processACRH"}

// functions of the internal packages that the request path calls
var requestPathInternal = map[string][]string{
	"origins": {"Parse", "parseScheme", "fastParseHost", "parsePort", "Contains", "contains", "lastByte", "splitAtCommonSuffix", "IsEmpty", "isLowerAlpha", "isSubsequentSchemeByte", "isASCIILabelByte", "isDigit", "isNonZeroDigit", "intFromDigit"},
	"headers": {"First", "Check", "cutAtComma", "TrimOWS", "trimLeftOWS", "trimRightOWS", "isOWS"},
	"util":    {"IndexAfter", "MaxLen", "Size", "Contains"},
	"methods": {"IsSafelisted"},
}

func classify(p *pkgInfo, e ast.Expr) string {
	switch v := e.(type) {
	case *ast.Ident:
		switch v.Name {
		case "originSgl", "acrmSgl", "acrh":
			return "request"
		case "vary":
			return "response"
		case "buf":
			return "buffer"
		}
		if tv, ok := p.info.Types[e]; ok && tv.Value != nil {
			return "fresh"
		}
		return "other:" + v.Name
	case *ast.SelectorExpr:
		if x, ok := v.X.(*ast.Ident); ok {
			if x.Name == "headers" {
				if strings.HasSuffix(v.Sel.Name, "Sgl") {
					return "singleton"
				}
				return "fresh" // string constant: Add/Set allocate the slice
			}
			if x.Name == "icfg" {
				return "config:" + v.Sel.Name
			}
		}
		return "other"
	case *ast.CallExpr:
		if id, ok := v.Fun.(*ast.Ident); ok && id.Name == "append" {
			return "response"
		}
		return "call"
	case *ast.CompositeLit:
		return "fresh"
	}
	return "other"
}

func requestPath(pkgs map[string]*pkgInfo) {
	p := pkgs["cors"]
	var writes, installs []string
	for _, name := range requestPathRoots {
		fd := funcDecl(p, name)
		if fd == nil {
			installs = append(installs, name+"|MISSING")
			continue
		}
		ast.Inspect(fd.Body, func(n ast.Node) bool {
			switch s := n.(type) {
			case *ast.AssignStmt:
				for i, l := range s.Lhs {
					// writes through the receiver or to package-level variables
					root := l
					for {
						switch r := root.(type) {
						case *ast.SelectorExpr:
							root = r.X
							continue
						case *ast.IndexExpr:
							root = r.X
							continue
						case *ast.StarExpr:
							root = r.X
							continue
						}
						break
					}
					if id, ok := root.(*ast.Ident); ok {
						obj := p.info.Uses[id]
						if obj == nil {
							obj = p.info.Defs[id]
						}
						if id.Name == "icfg" && root != l {
							writes = append(writes, name+": "+exprString(l))
						}
						if v, ok := obj.(*types.Var); ok && v.Parent() == p.pkg.Scope() {
							writes = append(writes, name+": "+exprString(l))
						}
						if sel, ok := root.(*ast.Ident); ok && sel.Name == "headers" {
							writes = append(writes, name+": "+exprString(l))
						}
					}
					// header installs
					if ix, ok := l.(*ast.IndexExpr); ok && s.Tok == token.ASSIGN {
						if tid, ok := ix.X.(*ast.Ident); ok && (tid.Name == "resHdrs" || tid.Name == "buf") && i < len(s.Rhs) {
							installs = append(installs, name+"|"+tid.Name+"|assign|"+classify(p, s.Rhs[i]))
						}
					}
				}
			case *ast.CallExpr:
				if sel, ok := s.Fun.(*ast.SelectorExpr); ok {
					if tid, ok := sel.X.(*ast.Ident); ok && (tid.Name == "resHdrs" || tid.Name == "buf") {
						switch sel.Sel.Name {
						case "Add", "Set":
							// Header.Add / Header.Set take a string and allocate (or append to) the value slice themselves
							installs = append(installs, name+"|"+tid.Name+"|"+strings.ToLower(sel.Sel.Name)+"|fresh")
						case "Del":
							installs = append(installs, name+"|"+tid.Name+"|del|-")
						}
					}
					if x, ok := sel.X.(*ast.Ident); ok && x.Name == "maps" && sel.Sel.Name == "Copy" && len(s.Args) == 2 {
						installs = append(installs, name+"|"+exprString(s.Args[0])+"|copy|"+classify(p, s.Args[1]))
					}
				}
			}
			return true
		})
	}
	add("cors_requestPathWrites", ": List Bytes := "+leanStrList(writes), "assignments through the configuration receiver or to package-level variables in the request-path functions: "+readable(writes))
	add("cors_installs", ": List (List Bytes) := "+leanRows(installs), "function|target|operation|provenance of every header-map write on the request path: "+readable(installs))

	// the wrapped handler is called last on each non-preflight path, with the identifiers w and r
	var calls []string
	for _, f := range p.files {
		ast.Inspect(f, func(n ast.Node) bool {
			call, ok := n.(*ast.CallExpr)
			if !ok {
				return true
			}
			if sel, ok := call.Fun.(*ast.SelectorExpr); ok && sel.Sel.Name == "ServeHTTP" {
				if x, ok := sel.X.(*ast.Ident); ok && x.Name == "h" {
					var args []string
					for _, a := range call.Args {
						args = append(args, exprString(a))
					}
					calls = append(calls, strings.Join(args, ","))
				}
			}
			return true
		})
	}
	add("cors_handlerCalls", ": List Bytes := "+leanStrList(calls), "arguments of every call of the wrapped handler: "+readable(calls))

	// loops
	var loops []string
	scan := func(pk *pkgInfo, names []string) {
		want := map[string]bool{}
		for _, n := range names {
			want[n] = true
		}
		for _, f := range pk.files {
			for _, d := range f.Decls {
				fd, ok := d.(*ast.FuncDecl)
				if !ok || fd.Body == nil || !want[fd.Name.Name] {
					continue
				}
				ast.Inspect(fd.Body, func(n ast.Node) bool {
					var body *ast.BlockStmt
					switch s := n.(type) {
					case *ast.ForStmt:
						body = s.Body
					case *ast.RangeStmt:
						body = s.Body
					}
					if body == nil {
						return true
					}
					ast.Inspect(body, func(n ast.Node) bool {
						switch e := n.(type) {
						case *ast.CallExpr:
							cn := calleeName(e)
							if tv, ok := pk.info.Types[e.Fun]; ok && tv.IsType() {
								// conversion
								if b, ok := tv.Type.Underlying().(*types.Basic); ok && b.Info()&types.IsNumeric != 0 {
									return true
								}
								loops = append(loops, pk.name+"."+fd.Name.Name+": alloc conversion "+exprString(e.Fun))
								return true
							}
							switch cn {
							case "append", "make", "new":
								loops = append(loops, pk.name+"."+fd.Name.Name+": alloc "+cn)
							default:
								loops = append(loops, pk.name+"."+fd.Name.Name+": call "+cn)
							}
						case *ast.BinaryExpr:
							if e.Op == token.ADD {
								if tv, ok := pk.info.Types[e]; ok {
									if b, ok := tv.Type.Underlying().(*types.Basic); ok && b.Info()&types.IsString != 0 && tv.Value == nil {
										loops = append(loops, pk.name+"."+fd.Name.Name+": alloc string concatenation")
									}
								}
							}
						case *ast.CompositeLit:
							loops = append(loops, pk.name+"."+fd.Name.Name+": alloc composite literal")
						case *ast.FuncLit:
							loops = append(loops, pk.name+"."+fd.Name.Name+": alloc func literal")
						}
						return true
					})
					return false
				})
			}
		}
	}
	scan(p, requestPathRoots)
	for pkgName, names := range requestPathInternal {
		if pk := pkgs[pkgName]; pk != nil {
			scan(pk, names)
		}
	}
	sort.Strings(loops)
	loops = dedup(loops)
	add("cors_requestPathLoops", ": List (List Bytes) := "+leanRows(loopRows(loops)), "function|kind|what for every call and allocating construct lexically inside `for` loops of the functions on the request path: "+readable(loops))
}

// loopRows turns "pkg.func: kind what" into "pkg.func|kind|what".
func loopRows(ss []string) []string {
	out := make([]string, len(ss))
	for i, s := range ss {
		fn, rest, _ := strings.Cut(s, ": ")
		kind, what, _ := strings.Cut(rest, " ")
		out[i] = fn + "|" + kind + "|" + what
	}
	return out
}

func dedup(ss []string) []string {
	var out []string
	for i, s := range ss {
		if i == 0 || s != ss[i-1] {
			out = append(out, s)
		}
	}
	return out
}

func exprString(e ast.Expr) string {
	switch v := e.(type) {
	case *ast.Ident:
		return v.Name
	case *ast.SelectorExpr:
		return exprString(v.X) + "." + v.Sel.Name
	case *ast.IndexExpr:
		return exprString(v.X) + "[" + exprString(v.Index) + "]"
	case *ast.StarExpr:
		return "*" + exprString(v.X)
	case *ast.CallExpr:
		return exprString(v.Fun) + "(…)"
	case *ast.BasicLit:
		return v.Value
	case *ast.ArrayType:
		return "[]" + exprString(v.Elt)
	}
	return fmt.Sprintf("%T", e)
}

// ---------------------------------------------------------------- newConfig

// newConfigFacts: how every slice field of the Config returned by newConfig is produced.
func newConfigFacts(p *pkgInfo) {
	fd := funcDecl(p, "newConfig")
	var rows []string
	if fd != nil {
		ast.Inspect(fd.Body, func(n ast.Node) bool {
			as, ok := n.(*ast.AssignStmt)
			if !ok {
				return true
			}
			for i, l := range as.Lhs {
				ls := exprString(l)
				if !strings.HasPrefix(ls, "cfg.") || i >= len(as.Rhs) {
					continue
				}
				tv, ok := p.info.Types[as.Rhs[i]]
				if !ok {
					continue
				}
				if _, isSlice := tv.Type.Underlying().(*types.Slice); !isSlice {
					continue
				}
				class := "shared:" + exprString(as.Rhs[i])
				switch r := as.Rhs[i].(type) {
				case *ast.CompositeLit:
					class = "fresh"
				case *ast.CallExpr:
					switch cn := calleeName(r); {
					case strings.HasSuffix(cn, ".Elems"), strings.HasSuffix(cn, ".ToSlice"), cn == "strings.Split", cn == "slices.Clone":
						class = "fresh"
					default:
						class = "call:" + cn
					}
				}
				rows = append(rows, ls+"|"+class)
			}
			return true
		})
	}
	add("cors_newConfigSlices", ": List (List Bytes) := "+leanRows(rows), "field|provenance of every slice stored into the Config returned by newConfig: "+readable(rows))
}
