package main

func moreStructural(pkgs map[string]*pkgInfo) {}
