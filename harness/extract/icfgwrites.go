package main

import (
	"go/ast"
	"go/types"
	"sort"
	"strings"
)

// icfgWrites: every place that writes into an internalConfig value (assignment to one of its
// fields, directly or through a selector/index chain, and calls of the mutating methods Insert /
// Add on one of its fields), as "function|field|kind".  C07 requires that all of them sit in the
// functions that run before the configuration is published.
func icfgWrites(p *pkgInfo) {
	isICfg := func(e ast.Expr) bool {
		tv, ok := p.info.Types[e]
		if !ok || tv.Type == nil {
			return false
		}
		t := tv.Type
		if pt, ok := t.(*types.Pointer); ok {
			t = pt.Elem()
		}
		n, ok := t.(*types.Named)
		return ok && n.Obj().Name() == "internalConfig"
	}
	// rootField returns the field name if e is <icfg-typed expr>.<field>(.sel|[i])*
	var rootField func(e ast.Expr) (string, bool)
	rootField = func(e ast.Expr) (string, bool) {
		switch x := e.(type) {
		case *ast.SelectorExpr:
			if isICfg(x.X) {
				return x.Sel.Name, true
			}
			return rootField(x.X)
		case *ast.IndexExpr:
			return rootField(x.X)
		case *ast.StarExpr:
			return rootField(x.X)
		case *ast.ParenExpr:
			return rootField(x.X)
		}
		return "", false
	}
	var rows []string
	for _, f := range p.files {
		for _, d := range f.Decls {
			fd, ok := d.(*ast.FuncDecl)
			if !ok || fd.Body == nil {
				continue
			}
			ast.Inspect(fd.Body, func(n ast.Node) bool {
				switch s := n.(type) {
				case *ast.AssignStmt:
					for _, lhs := range s.Lhs {
						if fld, ok := rootField(lhs); ok {
							rows = append(rows, fd.Name.Name+"|"+fld+"|assign")
						}
					}
				case *ast.IncDecStmt:
					if fld, ok := rootField(s.X); ok {
						rows = append(rows, fd.Name.Name+"|"+fld+"|incdec")
					}
				case *ast.CallExpr:
					if sel, ok := s.Fun.(*ast.SelectorExpr); ok && (sel.Sel.Name == "Insert" || sel.Sel.Name == "Add") {
						if fld, ok := rootField(sel.X); ok {
							rows = append(rows, fd.Name.Name+"|"+fld+"|"+strings.ToLower(sel.Sel.Name))
						}
					}
				}
				return true
			})
		}
	}
	sort.Strings(rows)
	rows = dedupe(rows)
	add("cors_icfgWrites", ": List Bytes := "+leanBytesList(rows),
		"every write into an internalConfig value: function|field|kind (sorted, distinct)")
}

func dedupe(s []string) []string {
	var out []string
	for i, x := range s {
		if i == 0 || x != s[i-1] {
			out = append(out, x)
		}
	}
	return out
}
