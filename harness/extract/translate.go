package main

import (
	"fmt"
	"go/ast"
	"go/constant"
	"go/token"
	"strings"
)

// A small translator from Go to Lean for the decision steps of the preflight pipeline
// (processOriginForPreflight, processACRPN, processACRM, processACRH: methods of *internalConfig that take the
// accumulation map `buf`, may assign `buf[k] = v`, and return whether the step succeeded).  The generated file
// Gen/Pipeline.lean is rebuilt from the working tree on every run; Proofs/Translated.lean proves each generated function
// equal to the hand-written model's (Model/Serve.lean), so an edit of one of these Go functions either still proves
// (a harmless rewrite) or breaks the obligation.
//
// Supported Go: `if` / `else` (no init statement), `return true|false`, `buf[K] = V`, `a, b, c := headers.First(h, K)`,
// `v, found := h[K]`, `o, ok := origins.Parse(s)`; expressions `!`, `&&`, `||`, `==`, `!=`, identifiers, `icfg.field`,
// `headers.Name`, integer literals, `x != nil` on slices, and the calls listed in `callTable`.  Anything else becomes
// `GoRt.unsupported "<go text>"`, which no equivalence proof survives.
//
// A bool function returns `Bool × Buf`: the result and the buffer with the assignments made up to that `return`
// (also on `return false`: what a failing step leaves in the buffer is visible in debug mode).

var fieldTable = map[string]string{
	"tree": "tree", "allowedMethods": "allowedMethods", "allowedReqHdrs": "allowedReqHdrs", "acah": "acah",
	"credentialed": "credentialed", "allowAnyMethod": "allowAnyMethod", "asteriskReqHdrs": "asteriskReqHdrs",
	"allowAuthorization": "allowAuthorization", "privateNetworkAccess": "pna", "privateNetworkAccessNoCors": "pnaNoCors",
	"acma": "acma", "aceh": "aceh", "preflightStatusMinus200": "statusMinus200",
}

var paramTypes = map[string]string{
	"http.Header": "HdrMap", "string": "Bytes", "[]string": "List Bytes", "bool": "Bool",
}

type tr struct {
	bad     []string
	state   string // name of the header map the function updates: "buf" (bool functions) or "resHdrs" (void functions)
	void    bool   // the function returns nothing: `return` and the end of the body yield the state
	status  bool   // a void function that takes the ResponseWriter: the result is (header map, status written if any)
	closure bool   // the handler closure of Wrap: the result is the whole response (headers, status, wrapped handler called)
	p       *pkgInfo
}

// the bool steps that take the buffer first (translated themselves): a call `icfg.M(buf, …)` in an `if` condition
var stepMethods = map[string]bool{"processOriginForPreflight": true, "processACRPN": true, "processACRM": true, "processACRH": true}

func (t *tr) final() string {
	if t.closure {
		return "{ hdrs := " + t.state + ", status := status, next := next }"
	}
	if t.status {
		return "(" + t.state + ", status)"
	}
	return t.state
}

func (t *tr) unsupported(n ast.Node) string {
	s := exprText(n)
	t.bad = append(t.bad, s)
	return fmt.Sprintf("(GoRt.unsupported %q)", s)
}

func (t *tr) expr(e ast.Expr) string {
	switch e := e.(type) {
	case *ast.ParenExpr:
		return "(" + t.expr(e.X) + ")"
	case *ast.Ident:
		switch e.Name {
		case "true", "false":
			return e.Name
		}
		return e.Name
	case *ast.BasicLit:
		if e.Kind == token.INT {
			return e.Value
		}
		if e.Kind == token.STRING && e.Value == `""` {
			return "([] : Bytes)"
		}
	case *ast.UnaryExpr:
		if e.Op == token.NOT {
			return "(!" + t.expr(e.X) + ")"
		}
		if e.Op == token.AND { // &o
			return t.expr(e.X)
		}
	case *ast.BinaryExpr:
		if id, ok := e.Y.(*ast.Ident); ok && id.Name == "nil" {
			switch e.Op {
			case token.NEQ:
				return "(!(" + t.expr(e.X) + ").isEmpty)"
			case token.EQL:
				return "((" + t.expr(e.X) + ").isEmpty)"
			}
		}
		ops := map[token.Token]string{token.LAND: "&&", token.LOR: "||", token.EQL: "==", token.NEQ: "!=", token.ADD: "+"}
		if op, ok := ops[e.Op]; ok {
			return "(" + t.expr(e.X) + " " + op + " " + t.expr(e.Y) + ")"
		}
	case *ast.SelectorExpr:
		if id, ok := e.X.(*ast.Ident); ok && id.Name == "http" && t.p != nil {
			if tv, ok := t.p.info.Types[e]; ok && tv.Value != nil && tv.Value.Kind() == constant.Int {
				return tv.Value.ExactString() // http.StatusForbidden
			}
		}
		if id, ok := e.X.(*ast.Ident); ok && id.Name == "r" && t.closure {
			switch e.Sel.Name {
			case "Method":
				return "r.method"
			case "Header":
				return "r.hdrs"
			}
		}
		if exprText(e) == "http.MethodOptions" {
			return "Serve.OPTIONS"
		}
		if id, ok := e.X.(*ast.Ident); ok {
			switch id.Name {
			case "icfg":
				if f, ok := fieldTable[e.Sel.Name]; ok {
					return "icfg." + f
				}
			case "headers":
				return "Facts.headers_" + e.Sel.Name
			}
		}
	case *ast.CallExpr:
		fn := exprText(e.Fun)
		var args []string
		for _, a := range e.Args {
			args = append(args, t.expr(a))
		}
		switch {
		case fn == "int" && len(args) == 1: // conversion of the uint8 field to int before the addition: no wrap-around
			return args[0]
		case fn == "append" && len(args) == 2:
			return "(" + args[0] + " ++ [" + args[1] + "])"
		case fn == "methods.IsSafelisted" && len(args) == 1:
			return "(Methods.isSafelisted " + args[0] + ")"
		case fn == "icfg.tree.IsEmpty" && len(args) == 0:
			return "icfg.tree.isEmpty"
		case fn == "icfg.tree.Contains" && len(args) == 1:
			return "(Tree.contains icfg.tree " + args[0] + ")"
		case fn == "icfg.allowedMethods.Contains" && len(args) == 1:
			return "(icfg.allowedMethods.contains " + args[0] + ")"
		case fn == "icfg.allowedReqHdrs.Size" && len(args) == 0:
			return "icfg.allowedReqHdrs.size"
		case fn == "headers.Check" && len(args) == 2:
			return "(Headers.check " + args[0] + " " + args[1] + ")"
		}
	}
	return t.unsupported(e)
}

func (t *tr) isState(e ast.Expr) bool {
	id, ok := e.(*ast.Ident)
	return ok && id.Name == t.state
}

// stmts translates a statement list that must end in a return on every path.
func (t *tr) stmts(list []ast.Stmt, ind string) string {
	if len(list) == 0 {
		if t.void {
			return t.final()
		}
		t.bad = append(t.bad, "<falls off the end>")
		return `(GoRt.unsupported "<falls off the end>")`
	}
	s, rest := list[0], list[1:]
	switch s := s.(type) {
	case *ast.ReturnStmt:
		if t.void && len(s.Results) == 0 {
			return t.final()
		}
		if !t.void && len(s.Results) == 1 {
			if id, ok := s.Results[0].(*ast.Ident); ok {
				switch id.Name {
				case "true":
					return "(true, " + t.state + ")"
				case "false":
					return "(false, " + t.state + ")"
				}
			}
			return "(" + t.expr(s.Results[0]) + ", " + t.state + ")"
		}
	case *ast.AssignStmt:
		// buf[K] = V
		if s.Tok == token.ASSIGN && len(s.Lhs) == 1 && len(s.Rhs) == 1 {
			if ix, ok := s.Lhs[0].(*ast.IndexExpr); ok && t.isState(ix.X) {
				return "let " + t.state + " := HdrMap.assign " + t.state + " " + t.expr(ix.Index) + " " + t.expr(s.Rhs[0]) + "\n" + ind + t.stmts(rest, ind)
			}
		}
		if s.Tok == token.DEFINE && len(s.Lhs) == 1 && len(s.Rhs) == 1 && t.isState(s.Lhs[0]) && exprText(s.Rhs[0]) == "w.Header()" {
			// `resHdrs := w.Header()`: the writer's header map is the function's input state
			return t.stmts(rest, ind)
		}
		if s.Tok == token.DEFINE && len(s.Lhs) == 1 && len(s.Rhs) == 1 {
			if id, ok := s.Lhs[0].(*ast.Ident); ok && id.Name == "buf" {
				if c, ok := s.Rhs[0].(*ast.CallExpr); ok && exprText(c.Fun) == "make" && len(c.Args) >= 1 && exprText(c.Args[0]) == "http.Header" {
					return "let buf : Buf := HdrMap.empty\n" + ind + t.stmts(rest, ind)
				}
			}
		}
		if s.Tok == token.DEFINE && len(s.Lhs) == 1 && len(s.Rhs) == 1 {
			if id, ok := s.Lhs[0].(*ast.Ident); ok && id.Name != t.state && id.Name != "buf" {
				if _, isCall := s.Rhs[0].(*ast.CallExpr); !isCall {
					return "let " + id.Name + " := " + t.expr(s.Rhs[0]) + "\n" + ind + t.stmts(rest, ind)
				}
			}
		}
		if s.Tok == token.DEFINE && len(s.Rhs) == 1 {
			var names []string
			for _, l := range s.Lhs {
				id, ok := l.(*ast.Ident)
				if !ok {
					return t.unsupported(s)
				}
				names = append(names, id.Name)
			}
			var rhs string
			var projs []string
			switch r := s.Rhs[0].(type) {
			case *ast.CallExpr:
				fn := exprText(r.Fun)
				switch {
				case fn == "headers.First" && len(r.Args) == 2 && len(names) == 3:
					rhs = "GoRt.first " + t.expr(r.Args[0]) + " " + t.expr(r.Args[1])
					projs = []string{".1", ".2.1", ".2.2"}
				case fn == "origins.Parse" && len(r.Args) == 1 && len(names) == 2:
					rhs = "GoRt.parse " + t.expr(r.Args[0])
					projs = []string{".1", ".2"}
				}
			case *ast.IndexExpr:
				if len(names) == 2 {
					rhs = "GoRt.lookup " + t.expr(r.X) + " " + t.expr(r.Index)
					projs = []string{".1", ".2"}
				}
			}
			if rhs != "" {
				out := "let r__ := " + rhs + "\n" + ind
				for i, n := range names {
					if n != "_" {
						out += "let " + n + " := r__" + projs[i] + "\n" + ind
					}
				}
				return out + t.stmts(rest, ind)
			}
		}
	case *ast.ExprStmt:
		if c, ok := s.X.(*ast.CallExpr); ok && t.closure {
			fn := exprText(c.Fun)
			tail := func(from int) string {
				var args []string
				for _, a := range c.Args[from:] {
					args = append(args, t.expr(a))
				}
				return strings.Join(args, " ")
			}
			switch {
			case fn == "h.ServeHTTP" && len(c.Args) == 2 && exprText(c.Args[0]) == "w" && exprText(c.Args[1]) == "r":
				return "let next := true\n" + ind + t.stmts(rest, ind)
			case fn == "icfg.handleNonCORS" && len(c.Args) == 2 && exprText(c.Args[0]) == "w.Header()":
				return "let " + t.state + " := handleNonCORS icfg " + t.state + " " + tail(1) + "\n" + ind + t.stmts(rest, ind)
			case (fn == "icfg.handleCORSPreflight" || fn == "icfg.handleCORSActual") && len(c.Args) >= 1 && exprText(c.Args[0]) == "w":
				return "let r__ := " + strings.TrimPrefix(fn, "icfg.") + " icfg " + t.state + " " + tail(1) + "\n" + ind +
					"let " + t.state + " := r__.1\n" + ind + "let status := r__.2\n" + ind + t.stmts(rest, ind)
			}
		}
		return t.exprStmt(s, rest, ind)
	case *ast.DeclStmt:
		if gd, ok := s.Decl.(*ast.GenDecl); ok && gd.Tok == token.CONST {
			return t.stmts(rest, ind) // local constants are evaluated where they are used (size hints only)
		}
	case *ast.SwitchStmt:
		// tagless switch without fallthrough: an if-chain
		if s.Init == nil && s.Tag == nil {
			var chain ast.Stmt
			ok := true
			for i := len(s.Body.List) - 1; i >= 0; i-- {
				cc := s.Body.List[i].(*ast.CaseClause)
				for _, st := range cc.Body {
					if b, isB := st.(*ast.BranchStmt); isB && b.Tok != token.BREAK {
						ok = false
					}
				}
				if cc.List == nil { // default
					if i != len(s.Body.List)-1 {
						ok = false
					}
					chain = &ast.BlockStmt{List: cc.Body}
					continue
				}
				if len(cc.List) != 1 {
					ok = false
					break
				}
				is := &ast.IfStmt{Cond: cc.List[0], Body: &ast.BlockStmt{List: cc.Body}}
				if chain != nil {
					is.Else = chain
				}
				chain = is
			}
			if ok && chain != nil {
				if blk, isBlk := chain.(*ast.BlockStmt); isBlk {
					return t.stmts(append(append([]ast.Stmt{}, blk.List...), rest...), ind)
				}
				return t.stmts(append([]ast.Stmt{chain}, rest...), ind)
			}
		}
	case *ast.IfStmt:
		// `if !icfg.step(buf, args…) { … }`: the step updates the buffer and reports success
		if u, ok := s.Cond.(*ast.UnaryExpr); ok && u.Op == token.NOT && s.Init == nil && s.Else == nil {
			if c, ok := u.X.(*ast.CallExpr); ok && len(c.Args) >= 1 {
				if sel, ok := c.Fun.(*ast.SelectorExpr); ok && exprText(sel.X) == "icfg" && stepMethods[sel.Sel.Name] && exprText(c.Args[0]) == "buf" {
					var args []string
					for _, a := range c.Args[1:] {
						args = append(args, t.expr(a))
					}
					in := ind + "  "
					thenList := append(append([]ast.Stmt{}, s.Body.List...), rest...)
					return "let r__ := " + sel.Sel.Name + " icfg buf " + strings.Join(args, " ") + "\n" + ind + "let buf := r__.2\n" + ind +
						"if (!r__.1) then\n" + in + t.stmts(thenList, in) + "\n" + ind + "else\n" + in + t.stmts(rest, in)
				}
			}
		}
		if s.Init == nil {
			thenList := append(append([]ast.Stmt{}, s.Body.List...), rest...)
			var elseList []ast.Stmt
			switch e := s.Else.(type) {
			case nil:
				elseList = rest
			case *ast.BlockStmt:
				elseList = append(append([]ast.Stmt{}, e.List...), rest...)
			case *ast.IfStmt:
				elseList = append([]ast.Stmt{e}, rest...)
			}
			in := ind + "  "
			return "if " + t.expr(s.Cond) + " then\n" + in + t.stmts(thenList, in) + "\n" + ind + "else\n" + in + t.stmts(elseList, in)
		}
	}
	return t.unsupported(s)
}

func (t *tr) exprStmt(s *ast.ExprStmt, rest []ast.Stmt, ind string) string {
	if c, ok := s.X.(*ast.CallExpr); ok {
		fn := exprText(c.Fun)
		if fn == "maps.Copy" && len(c.Args) == 2 && t.isState(c.Args[0]) {
			return "let " + t.state + " := HdrMap.copy " + t.state + " " + t.expr(c.Args[1]) + "\n" + ind + t.stmts(rest, ind)
		}
		if fn == "w.WriteHeader" && len(c.Args) == 1 && t.status {
			return "let status : Option Nat := some " + t.expr(c.Args[0]) + "\n" + ind + t.stmts(rest, ind)
		}
	}
	if c, ok := s.X.(*ast.CallExpr); ok && len(c.Args) == 2 {
		if sel, ok := c.Fun.(*ast.SelectorExpr); ok && t.isState(sel.X) && (sel.Sel.Name == "Add" || sel.Sel.Name == "Set") {
			op := map[string]string{"Add": "HdrMap.add", "Set": "HdrMap.set"}[sel.Sel.Name]
			return "let " + t.state + " := " + op + " " + t.state + " " + t.expr(c.Args[0]) + " " + t.expr(c.Args[1]) + "\n" + ind + t.stmts(rest, ind)
		}
	}
	return t.unsupported(s)
}

func translatePipeline(pkgs map[string]*pkgInfo) string {
	p := pkgs["cors"]
	var b strings.Builder
	b.WriteString("/- GENERATED by /verif/harness/extract (translate.go) from the working tree of /repo. Do not edit. -/\n")
	b.WriteString("import CorsVerif.Model.GoRt\n\nnamespace Cors.Gen.GoSrc\nopen Cors Cors.Gen Cors.Serve\n\n")
	want := []string{"processOriginForPreflight", "processACRPN", "processACRM", "processACRH", "handleNonCORS", "handleCORSActual", "handleCORSPreflight"}
	for _, w := range want {
		var fd *ast.FuncDecl
		if p != nil {
			for _, f := range p.files {
				for _, d := range f.Decls {
					if x, ok := d.(*ast.FuncDecl); ok && x.Name.Name == w && x.Recv != nil && x.Body != nil {
						fd = x
					}
				}
			}
		}
		if fd == nil {
			fmt.Fprintf(&b, "/-- `%s` is missing from the source. -/\ndef %s : Unit := ()\n\n", w, w)
			continue
		}
		t := &tr{state: "buf", p: p}
		if fd.Type.Results == nil || len(fd.Type.Results.List) == 0 {
			t.void, t.state = true, "resHdrs"
		}
		params := "(icfg : ICfg)"
		for _, fl := range fd.Type.Params.List {
			tyText := exprText(fl.Type)
			ty, ok := paramTypes[tyText]
			if tyText == "http.ResponseWriter" && t.void {
				// the writer is used through `resHdrs := w.Header()` and `w.WriteHeader(status)` only
				params += " (resHdrs : HdrMap)"
				t.status = true
				continue
			}
			if !ok {
				ty = "Unit"
				t.bad = append(t.bad, "parameter type "+tyText)
			}
			for _, n := range fl.Names {
				name := n.Name
				if ty == "HdrMap" && name == "buf" {
					params += " (buf : Buf)"
				} else {
					params += " (" + name + " : " + ty + ")"
				}
			}
		}
		body := t.stmts(fd.Body.List, "  ")
		res := "Bool × Buf"
		if t.void {
			res = "HdrMap"
		}
		if t.status {
			res = "HdrMap × Option Nat"
			body = "let status : Option Nat := none\n  " + body
		}
		fmt.Fprintf(&b, "/-- `%s`, translated from: %s -/\n", w, strings.ReplaceAll(codeText(fd.Body), "-/", "- /"))
		fmt.Fprintf(&b, "def %s %s : %s :=\n  %s\n\n", w, params, res, body)
		if len(t.bad) > 0 {
			fmt.Fprintf(&b, "/- UNSUPPORTED in %s: %s -/\n\n", w, strings.ReplaceAll(strings.Join(t.bad, " ;; "), "-/", "- /"))
		}
	}
	b.WriteString(translateClosure(p))
	b.WriteString(translateState(p))
	b.WriteString(translateValidators(p))
	b.WriteString(translateLoops(p))
	b.WriteString(translateOriginLoop(p))
	b.WriteString(translateOrchestration(p))
	b.WriteString("end Cors.Gen.GoSrc\n")
	return b.String()
}

// translateClosure: the handler closure returned by Wrap, from the statement after `if icfg == nil { … }` on (the
// snapshot under the read lock and the passthrough branch are the business of the lock programs of C07 and of the state
// machine of C09/C11): the dispatch on Origin / method / ACRM and the calls of the three handlers and of the wrapped handler.
func translateClosure(p *pkgInfo) string {
	var lit *ast.FuncLit
	if p != nil {
		for _, f := range p.files {
			for _, d := range f.Decls {
				if x, ok := d.(*ast.FuncDecl); ok && x.Name.Name == "Wrap" && x.Recv != nil && x.Body != nil {
					ast.Inspect(x.Body, func(n ast.Node) bool {
						if fl, ok := n.(*ast.FuncLit); ok && lit == nil {
							lit = fl
						}
						return lit == nil
					})
				}
			}
		}
	}
	if lit == nil {
		return "/-- the closure of `Wrap` is missing from the source. -/\ndef serveClosure : Unit := ()\n\n"
	}
	t := &tr{state: "resHdrs", void: true, status: true, closure: true, p: p}
	var after []ast.Stmt
	found := false
	for i, st := range lit.Body.List {
		if is, ok := st.(*ast.IfStmt); ok && exprText(is.Cond) == "icfg == nil" {
			after, found = lit.Body.List[i+1:], true
			break
		}
	}
	var body string
	if !found {
		t.bad = append(t.bad, "no `if icfg == nil` in the closure")
		body = `(GoRt.unsupported "no passthrough test")`
	} else {
		body = t.stmts(after, "  ")
	}
	// the prologue: nothing but the declarations, the snapshot of both fields under the read lock, and the passthrough branch
	var passBody string
	if found {
		want := []string{"var icfg *internalConfig", "var debug bool", "m.mu.RLock()", "{ icfg = m.icfg debug = m.debug }", "m.mu.RUnlock()"}
		var got []string
		var pass *ast.IfStmt
		for _, st := range lit.Body.List {
			if is, ok := st.(*ast.IfStmt); ok && exprText(is.Cond) == "icfg == nil" {
				pass = is
				break
			}
			got = append(got, codeText(st))
		}
		if strings.Join(got, " ;; ") != strings.Join(want, " ;; ") {
			t.bad = append(t.bad, "prologue: "+strings.Join(got, " ;; "))
			passBody = fmt.Sprintf("(GoRt.unsupported %q)", strings.Join(got, " ;; "))
		} else if pass.Else != nil || pass.Init != nil {
			passBody = t.unsupported(pass)
		} else {
			passBody = t.stmts(pass.Body.List, "    ")
		}
	}
	var b strings.Builder
	fmt.Fprintf(&b, "/-- the closure of `Wrap` after the passthrough test, translated from: %s -/\n", strings.ReplaceAll(codeText(&ast.BlockStmt{List: after}), "-/", "- /"))
	fmt.Fprintf(&b, "def serveClosure (icfg : ICfg) (debug : Bool) (r : Req) (resHdrs : HdrMap) : Resp :=\n  let status : Option Nat := none\n  let next := false\n  %s\n\n", body)
	if found {
		fmt.Fprintf(&b, "/-- the whole closure of `Wrap` on the model's state: the snapshot of (configuration pointer, debug flag) taken under the read lock, the passthrough branch, then `serveClosure`. -/\n")
		fmt.Fprintf(&b, "def serveMw (m : Mw) (r : Req) (resHdrs : HdrMap) : Resp :=\n  match m.icfg with\n  | none =>\n    let status : Option Nat := none\n    let next := false\n    %s\n  | some icfg => serveClosure icfg m.debug r resHdrs\n\n", passBody)
	}
	if len(t.bad) > 0 {
		fmt.Fprintf(&b, "/- UNSUPPORTED in the closure of Wrap: %s -/\n\n", strings.ReplaceAll(strings.Join(t.bad, " ;; "), "-/", "- /"))
	}
	return b.String()
}

// translateState: the two methods that write the middleware's state, `Reconfigure` and `SetDebug`, as functions on the
// model's `Mw` (configuration pointer = `Option ICfg`, debug flag).  Lock and unlock calls are skipped (the lock
// programs are C07's regenerated facts); a bare block is inlined.  Supported besides: `icfg, err := newInternalConfig(cfg)`,
// `if err != nil { return err }`, `m.icfg = e`, `m.debug = e`, `return nil`; `x != nil` is `.isSome` on pointers.
func translateState(p *pkgInfo) string {
	var b strings.Builder
	for _, w := range []string{"Reconfigure", "SetDebug"} {
		var fd *ast.FuncDecl
		if p != nil {
			for _, f := range p.files {
				for _, d := range f.Decls {
					if x, ok := d.(*ast.FuncDecl); ok && x.Name.Name == w && x.Recv != nil && x.Body != nil && exprText(x.Recv.List[0].Type) == "*Middleware" {
						fd = x
					}
				}
			}
		}
		lname := strings.ToLower(w[:1]) + w[1:]
		if fd == nil {
			fmt.Fprintf(&b, "/-- `%s` is missing from the source. -/\ndef %s : Unit := ()\n\n", w, lname)
			continue
		}
		t := &tr{p: p}
		hasErr := fd.Type.Results != nil && len(fd.Type.Results.List) == 1
		var expr func(e ast.Expr) string
		expr = func(e ast.Expr) string {
			switch e := e.(type) {
			case *ast.ParenExpr:
				return "(" + expr(e.X) + ")"
			case *ast.Ident:
				return e.Name
			case *ast.SelectorExpr:
				if s := exprText(e); s == "m.icfg" || s == "m.debug" {
					return s
				}
			case *ast.BinaryExpr:
				if id, ok := e.Y.(*ast.Ident); ok && id.Name == "nil" && (e.Op == token.NEQ || e.Op == token.EQL) {
					isSome := "(" + expr(e.X) + ").isSome"
					if e.Op == token.EQL {
						return "(!" + isSome + ")"
					}
					return isSome
				}
				if e.Op == token.LAND || e.Op == token.LOR {
					return "(" + expr(e.X) + " " + e.Op.String() + " " + expr(e.Y) + ")"
				}
			case *ast.UnaryExpr:
				if e.Op == token.NOT {
					return "(!" + expr(e.X) + ")"
				}
			}
			return t.unsupported(e)
		}
		fin := func(errv string) string {
			if hasErr {
				return "(" + errv + ", m)"
			}
			return "m"
		}
		var stmts func(list []ast.Stmt, ind string) string
		stmts = func(list []ast.Stmt, ind string) string {
			if len(list) == 0 {
				if hasErr {
					t.bad = append(t.bad, "<falls off the end>")
					return `(GoRt.unsupported "<falls off the end>")`
				}
				return "m"
			}
			s, rest := list[0], list[1:]
			switch s := s.(type) {
			case *ast.BlockStmt:
				return stmts(append(append([]ast.Stmt{}, s.List...), rest...), ind)
			case *ast.ExprStmt:
				switch exprText(s.X) {
				case "m.mu.Lock()", "m.mu.Unlock()":
					return stmts(rest, ind)
				}
			case *ast.ReturnStmt:
				if hasErr && len(s.Results) == 1 {
					switch exprText(s.Results[0]) {
					case "nil":
						return fin("none")
					case "err":
						return fin("err")
					}
				}
				if !hasErr && len(s.Results) == 0 {
					return "m"
				}
			case *ast.AssignStmt:
				if s.Tok == token.DEFINE && len(s.Lhs) == 2 && len(s.Rhs) == 1 && exprText(s.Lhs[0]) == "icfg" && exprText(s.Lhs[1]) == "err" && exprText(s.Rhs[0]) == "newInternalConfig(cfg)" {
					return "let r__ := GoRt.newInternalConfig ext cfg\n" + ind + "let icfg := r__.1\n" + ind + "let err := r__.2\n" + ind + stmts(rest, ind)
				}
				if s.Tok == token.ASSIGN && len(s.Lhs) == 1 && len(s.Rhs) == 1 {
					switch exprText(s.Lhs[0]) {
					case "m.icfg":
						return "let m : Mw := { m with icfg := " + expr(s.Rhs[0]) + " }\n" + ind + stmts(rest, ind)
					case "m.debug":
						return "let m : Mw := { m with debug := " + expr(s.Rhs[0]) + " }\n" + ind + stmts(rest, ind)
					}
				}
			case *ast.IfStmt:
				if s.Init == nil && s.Else == nil {
					in := ind + "  "
					return "if " + expr(s.Cond) + " then\n" + in + stmts(append(append([]ast.Stmt{}, s.Body.List...), rest...), in) + "\n" + ind + "else\n" + in + stmts(rest, in)
				}
			}
			return t.unsupported(s)
		}
		body := stmts(fd.Body.List, "  ")
		fmt.Fprintf(&b, "/-- `(*Middleware).%s`, translated from: %s -/\n", w, strings.ReplaceAll(codeText(fd.Body), "-/", "- /"))
		if w == "Reconfigure" {
			fmt.Fprintf(&b, "def %s (ext : Ext) (m : Mw) (cfg : Option Config) : Option Err × Mw :=\n  %s\n\n", lname, body)
		} else {
			fmt.Fprintf(&b, "def %s (m : Mw) (b : Bool) : Mw :=\n  %s\n\n", lname, body)
		}
		if len(t.bad) > 0 {
			fmt.Fprintf(&b, "/- UNSUPPORTED in %s: %s -/\n\n", w, strings.ReplaceAll(strings.Join(t.bad, " ;; "), "-/", "- /"))
		}
	}
	return b.String()
}

// translateValidators: the two loop-free validators of config.go, `validatePreflightStatus` and `validateMaxAge`, as
// functions from the (unbounded, like Go's 64-bit int on everything the checks below let through) integer argument to
// (error, value of the field the function assigns).  Supported: tagless `switch` and `if` with integer comparisons,
// local and package constants (evaluated by go/types), `icfg.<field> = e`, `return nil`, `return &cfgerrors.T{…}` for
// the two error types, `uint8(e)`, `[]string{…}` of string literals and `strconv.Itoa(e)`.
func translateValidators(p *pkgInfo) string {
	var b strings.Builder
	type spec struct{ name, field, lname, resTy, zero string }
	for _, sp := range []spec{
		{"validatePreflightStatus", "preflightStatusMinus200", "validatePreflightStatus", "Nat", "0"},
		{"validateMaxAge", "acma", "validateMaxAge", "List Bytes", "[]"},
	} {
		var fd *ast.FuncDecl
		if p != nil {
			for _, f := range p.files {
				for _, d := range f.Decls {
					if x, ok := d.(*ast.FuncDecl); ok && x.Name.Name == sp.name && x.Recv != nil && x.Body != nil {
						fd = x
					}
				}
			}
		}
		if fd == nil || len(fd.Type.Params.List) != 1 || len(fd.Type.Params.List[0].Names) != 1 {
			fmt.Fprintf(&b, "/-- `%s` is missing from the source (or has another signature). -/\ndef %s : Unit := ()\n\n", sp.name, sp.lname)
			continue
		}
		arg := fd.Type.Params.List[0].Names[0].Name
		t := &tr{p: p}
		var expr func(e ast.Expr) string
		konst := func(e ast.Expr) (string, bool) {
			if tv, ok := p.info.Types[e]; ok && tv.Value != nil && tv.Value.Kind() == constant.Int {
				v := tv.Value.ExactString()
				if strings.HasPrefix(v, "-") {
					return "(" + v + " : Int)", true
				}
				return "(" + v + " : Int)", true
			}
			return "", false
		}
		expr = func(e ast.Expr) string {
			if k, ok := konst(e); ok {
				return k
			}
			switch e := e.(type) {
			case *ast.ParenExpr:
				return "(" + expr(e.X) + ")"
			case *ast.Ident:
				if e.Name == arg {
					return arg
				}
			case *ast.UnaryExpr:
				if e.Op == token.NOT {
					return "(!" + expr(e.X) + ")"
				}
			case *ast.BinaryExpr:
				switch e.Op {
				case token.LAND, token.LOR:
					return "(" + expr(e.X) + " " + e.Op.String() + " " + expr(e.Y) + ")"
				case token.LSS, token.LEQ, token.GTR, token.GEQ:
					return "decide (" + expr(e.X) + " " + map[token.Token]string{token.LSS: "<", token.LEQ: "≤", token.GTR: ">", token.GEQ: "≥"}[e.Op] + " " + expr(e.Y) + ")"
				case token.EQL:
					return "(" + expr(e.X) + " == " + expr(e.Y) + ")"
				case token.NEQ:
					return "(" + expr(e.X) + " != " + expr(e.Y) + ")"
				case token.SUB, token.ADD:
					return "(" + expr(e.X) + " " + e.Op.String() + " " + expr(e.Y) + ")"
				}
			case *ast.CallExpr:
				fn := exprText(e.Fun)
				if fn == "uint8" && len(e.Args) == 1 {
					return "(GoRt.uint8 " + expr(e.Args[0]) + ")"
				}
				if fn == "strconv.Itoa" && len(e.Args) == 1 {
					return "(GoRt.itoa " + expr(e.Args[0]) + ")"
				}
			case *ast.CompositeLit:
				if exprText(e.Type) == "[]string" {
					var els []string
					for _, el := range e.Elts {
						if tv, ok := p.info.Types[el]; ok && tv.Value != nil && tv.Value.Kind() == constant.String {
							els = append(els, leanBytes(constant.StringVal(tv.Value)))
						} else {
							els = append(els, expr(el))
						}
					}
					return "[" + strings.Join(els, ", ") + "]"
				}
			}
			return t.unsupported(e)
		}
		errLit := func(e ast.Expr) string {
			u, ok := e.(*ast.UnaryExpr)
			if !ok || u.Op != token.AND {
				return t.unsupported(e)
			}
			cl, ok := u.X.(*ast.CompositeLit)
			if !ok {
				return t.unsupported(e)
			}
			fields := map[string]string{}
			for _, el := range cl.Elts {
				kv, ok := el.(*ast.KeyValueExpr)
				if !ok {
					return t.unsupported(e)
				}
				fields[exprText(kv.Key)] = expr(kv.Value)
			}
			get := func(k string) string {
				if v, ok := fields[k]; ok {
					return v
				}
				return t.unsupported(cl)
			}
			nat := func(s string) string { return "(GoRt.nat " + s + ")" }
			switch exprText(cl.Type) {
			case "cfgerrors.PreflightSuccessStatusOutOfBoundsError":
				if len(fields) == 4 {
					return "(CfgErr.status " + get("Value") + " " + nat(get("Default")) + " " + nat(get("Min")) + " " + nat(get("Max")) + ")"
				}
			case "cfgerrors.MaxAgeOutOfBoundsError":
				if len(fields) == 4 {
					return "(CfgErr.maxAge " + get("Value") + " " + nat(get("Default")) + " " + nat(get("Max")) + " " + get("Disable") + ")"
				}
			}
			return t.unsupported(e)
		}
		var stmts func(list []ast.Stmt, ind string) string
		stmts = func(list []ast.Stmt, ind string) string {
			if len(list) == 0 {
				t.bad = append(t.bad, "<falls off the end>")
				return `(GoRt.unsupported "<falls off the end>")`
			}
			s, rest := list[0], list[1:]
			in := ind + "  "
			switch s := s.(type) {
			case *ast.DeclStmt:
				if gd, ok := s.Decl.(*ast.GenDecl); ok && gd.Tok == token.CONST {
					return stmts(rest, ind)
				}
			case *ast.ReturnStmt:
				if len(s.Results) == 1 {
					if exprText(s.Results[0]) == "nil" {
						return "(none, field)"
					}
					return "(some " + errLit(s.Results[0]) + ", field)"
				}
			case *ast.AssignStmt:
				if s.Tok == token.ASSIGN && len(s.Lhs) == 1 && len(s.Rhs) == 1 && exprText(s.Lhs[0]) == "icfg."+sp.field {
					rhs := expr(s.Rhs[0])
					if sp.resTy == "Nat" && !strings.HasPrefix(rhs, "(GoRt.uint8 ") {
						rhs = "(GoRt.uint8 " + rhs + ")" // assignment to the uint8 field
					}
					return "let field : " + sp.resTy + " := " + rhs + "\n" + ind + stmts(rest, ind)
				}
			case *ast.IfStmt:
				if s.Init == nil && s.Else == nil {
					return "if " + expr(s.Cond) + " then\n" + in + stmts(append(append([]ast.Stmt{}, s.Body.List...), rest...), in) + "\n" + ind + "else\n" + in + stmts(rest, in)
				}
			case *ast.SwitchStmt:
				if s.Init == nil && s.Tag == nil {
					out, close := "", ""
					for i, c := range s.Body.List {
						cc := c.(*ast.CaseClause)
						body := stmts(append(append([]ast.Stmt{}, cc.Body...), rest...), in)
						if cc.List == nil {
							if i != len(s.Body.List)-1 {
								return t.unsupported(s)
							}
							return out + body + close
						}
						if len(cc.List) != 1 {
							return t.unsupported(s)
						}
						out += "if " + expr(cc.List[0]) + " then\n" + in + body + "\n" + ind + "else\n" + in
					}
					return out + stmts(rest, in)
				}
			}
			return t.unsupported(s)
		}
		body := stmts(fd.Body.List, "  ")
		fmt.Fprintf(&b, "/-- `(*internalConfig).%s`, translated from: %s -/\n", sp.name, strings.ReplaceAll(codeText(fd.Body), "-/", "- /"))
		fmt.Fprintf(&b, "def %s (%s : Int) : Option CfgErr × %s :=\n  let field : %s := %s\n  %s\n\n", sp.lname, arg, sp.resTy, sp.resTy, sp.zero, body)
		if len(t.bad) > 0 {
			fmt.Fprintf(&b, "/- UNSUPPORTED in %s: %s -/\n\n", sp.name, strings.ReplaceAll(strings.Join(t.bad, " ;; "), "-/", "- /"))
		}
	}
	return b.String()
}

// translateLoops: the bodies of the `for _, name := range names` loops of validateMethods, validateRequestHeaders and
// validateResponseHeaders as step functions on the model's loop states (one iteration: state, element -> state; `continue`
// and the end of the body yield the state).  Per function a table maps the Go variables the loop writes to the fields of
// the model's state record.  Supported: `if` without else (the body may end in `continue`), `X = true` on a mapped flag,
// `err := &cfgerrors.T{…}` / `new(cfgerrors.T)` followed by `errs = append(errs, err)`, `S.Add(e)` on a mapped set,
// `name = methods.Normalize(name)`, `normalized := util.ByteLowercase(name)`, the predicates of internal/headers and
// internal/methods, `==` on strings, `!`, `&&`, `||`.  The prologue (`len(names) == 0`) and the epilogue (errors.Join, the
// assignments to icfg) stay hand-modelled.
func translateLoops(p *pkgInfo) string {
	var b strings.Builder
	type spec struct {
		name, lname, stTy, params string
		vars                      map[string]string // Go lvalue text -> state field
		isResp                    string
	}
	specs := []spec{
		{"validateMethods", "methodStep", "Validate.MState", "", map[string]string{"icfg.allowAnyMethod": "any", "allowedMethods": "set", "errs": "errs"}, ""},
		{"validateRequestHeaders", "reqHdrStep", "Validate.RState", "(credentialed : Bool) ", map[string]string{"icfg.asteriskReqHdrs": "asterisk", "icfg.allowAuthorization": "allowAuth", "allowedHeaders": "set", "errs": "errs"}, "false"},
		{"validateResponseHeaders", "resHdrStep", "Validate.EState", "(credentialed : Bool) ", map[string]string{"exposeAllResHdrs": "all", "exposedHeaders": "set", "errs": "errs"}, "true"},
	}
	preds := map[string]string{
		"methods.IsValid": "Methods.isValid", "methods.IsSafelisted": "Methods.isSafelisted", "methods.IsForbidden": "Methods.isForbidden",
		"headers.IsValid": "Headers.isValid", "headers.IsForbiddenRequestHeaderName": "Headers.isForbiddenRequestHeaderName",
		"headers.IsProhibitedRequestHeaderName": "Headers.isProhibitedRequestHeaderName", "headers.IsForbiddenResponseHeaderName": "Headers.isForbiddenResponseHeaderName",
		"headers.IsProhibitedResponseHeaderName": "Headers.isProhibitedResponseHeaderName", "headers.IsSafelistedResponseHeaderName": "Headers.isSafelistedResponseHeaderName",
	}
	for _, sp := range specs {
		var loop *ast.RangeStmt
		if p != nil {
			for _, f := range p.files {
				for _, d := range f.Decls {
					if x, ok := d.(*ast.FuncDecl); ok && x.Name.Name == sp.name && x.Recv != nil && x.Body != nil {
						for _, st := range x.Body.List {
							if r, ok := st.(*ast.RangeStmt); ok && loop == nil {
								loop = r
							}
						}
					}
				}
			}
		}
		if loop == nil || exprText(loop.X) != "names" || loop.Value == nil || exprText(loop.Value) != "name" {
			fmt.Fprintf(&b, "/-- the loop of `%s` is missing from the source (or ranges over something else). -/\ndef %s : Unit := ()\n\n", sp.name, sp.lname)
			continue
		}
		t := &tr{p: p}
		var expr func(e ast.Expr) string
		expr = func(e ast.Expr) string {
			switch e := e.(type) {
			case *ast.ParenExpr:
				return "(" + expr(e.X) + ")"
			case *ast.Ident:
				if e.Name == "name" || e.Name == "normalized" {
					return e.Name
				}
				if f, ok := sp.vars[e.Name]; ok {
					return "st." + f
				}
			case *ast.SelectorExpr:
				s := exprText(e)
				if f, ok := sp.vars[s]; ok {
					return "st." + f
				}
				if s == "icfg.credentialed" && sp.params != "" {
					return "credentialed"
				}
				if id, ok := e.X.(*ast.Ident); ok && id.Name == "headers" {
					return "Facts.headers_" + e.Sel.Name
				}
			case *ast.UnaryExpr:
				if e.Op == token.NOT {
					return "(!" + expr(e.X) + ")"
				}
			case *ast.BinaryExpr:
				if e.Op == token.LAND || e.Op == token.LOR || e.Op == token.EQL {
					return "(" + expr(e.X) + " " + e.Op.String() + " " + expr(e.Y) + ")"
				}
			case *ast.CallExpr:
				if pr, ok := preds[exprText(e.Fun)]; ok && len(e.Args) == 1 {
					return "(" + pr + " " + expr(e.Args[0]) + ")"
				}
			}
			return t.unsupported(e)
		}
		errVal := func(e ast.Expr) string {
			if c, ok := e.(*ast.CallExpr); ok && exprText(c.Fun) == "new" && len(c.Args) == 1 && exprText(c.Args[0]) == "cfgerrors.IncompatibleWildcardResponseHeaderNameError" {
				return "CfgErr.wildcardRespHdr"
			}
			u, ok := e.(*ast.UnaryExpr)
			if !ok || u.Op != token.AND {
				return t.unsupported(e)
			}
			cl, ok := u.X.(*ast.CompositeLit)
			if !ok {
				return t.unsupported(e)
			}
			f := map[string]ast.Expr{}
			for _, el := range cl.Elts {
				kv, ok := el.(*ast.KeyValueExpr)
				if !ok {
					return t.unsupported(e)
				}
				f[exprText(kv.Key)] = kv.Value
			}
			str := func(k string) string {
				if v, ok := f[k]; ok {
					if tv, ok := p.info.Types[v]; ok && tv.Value != nil && tv.Value.Kind() == constant.String {
						return constant.StringVal(tv.Value)
					}
				}
				return "?"
			}
			switch exprText(cl.Type) {
			case "cfgerrors.UnacceptableMethodError":
				if r := str("Reason"); len(f) == 2 && (r == "invalid" || r == "forbidden") && f["Value"] != nil {
					return "(CfgErr.method " + expr(f["Value"]) + " ." + r + ")"
				}
			case "cfgerrors.UnacceptableHeaderNameError":
				r, ty := str("Reason"), str("Type")
				if len(f) == 3 && (r == "invalid" || r == "forbidden" || r == "prohibited") && (ty == "request" || ty == "response") && f["Value"] != nil {
					return "(CfgErr.headerName " + expr(f["Value"]) + " " + map[string]string{"request": "false", "response": "true"}[ty] + " ." + r + ")"
				}
			}
			return t.unsupported(e)
		}
		var stmts func(list []ast.Stmt, ind string) string
		stmts = func(list []ast.Stmt, ind string) string {
			if len(list) == 0 {
				return "st"
			}
			s, rest := list[0], list[1:]
			in := ind + "  "
			switch s := s.(type) {
			case *ast.BranchStmt:
				if s.Tok == token.CONTINUE && s.Label == nil {
					return "st"
				}
			case *ast.IfStmt:
				if s.Init == nil && s.Else == nil {
					return "if " + expr(s.Cond) + " then\n" + in + stmts(append(append([]ast.Stmt{}, s.Body.List...), rest...), in) + "\n" + ind + "else\n" + in + stmts(rest, in)
				}
			case *ast.ExprStmt:
				if c, ok := s.X.(*ast.CallExpr); ok && len(c.Args) == 1 {
					if sel, ok := c.Fun.(*ast.SelectorExpr); ok && sel.Sel.Name == "Add" {
						if f, ok := sp.vars[exprText(sel.X)]; ok {
							return "let st : " + sp.stTy + " := { st with " + f + " := st." + f + ".add " + expr(c.Args[0]) + " }\n" + ind + stmts(rest, ind)
						}
					}
				}
			case *ast.AssignStmt:
				if len(s.Lhs) == 1 && len(s.Rhs) == 1 {
					l, r := exprText(s.Lhs[0]), s.Rhs[0]
					if f, ok := sp.vars[l]; ok && s.Tok == token.ASSIGN && exprText(r) == "true" {
						return "let st : " + sp.stTy + " := { st with " + f + " := true }\n" + ind + stmts(rest, ind)
					}
					if l == "name" && s.Tok == token.ASSIGN && exprText(r) == "methods.Normalize(name)" {
						return "let name := Methods.normalize name\n" + ind + stmts(rest, ind)
					}
					if l == "normalized" && s.Tok == token.DEFINE && exprText(r) == "util.ByteLowercase(name)" {
						return "let normalized := name.lower\n" + ind + stmts(rest, ind)
					}
					// err := <error value>; errs = append(errs, err)
					if l == "err" && s.Tok == token.DEFINE && len(rest) > 0 {
						if a, ok := rest[0].(*ast.AssignStmt); ok && a.Tok == token.ASSIGN && len(a.Lhs) == 1 && exprText(a.Lhs[0]) == "errs" && len(a.Rhs) == 1 && exprText(a.Rhs[0]) == "append(errs, err)" {
							return "let st : " + sp.stTy + " := { st with errs := st.errs ++ [" + errVal(r) + "] }\n" + ind + stmts(rest[1:], ind)
						}
					}
				}
			}
			return t.unsupported(s)
		}
		body := stmts(loop.Body.List, "  ")
		fmt.Fprintf(&b, "/-- one iteration of the loop of `%s`, translated from: %s -/\n", sp.name, strings.ReplaceAll(codeText(loop.Body), "-/", "- /"))
		fmt.Fprintf(&b, "def %s %s(st : %s) (name : Bytes) : %s :=\n  %s\n\n", sp.lname, sp.params, sp.stTy, sp.stTy, body)
		if len(t.bad) > 0 {
			fmt.Fprintf(&b, "/- UNSUPPORTED in the loop of %s: %s -/\n\n", sp.name, strings.ReplaceAll(strings.Join(t.bad, " ;; "), "-/", "- /"))
		}
	}
	return b.String()
}

// translateOriginLoop: the body of the `for _, raw := range patterns` loop of validateOrigins as a step function on the
// model's `Validate.OState` (tree, errs, allowAny).  Besides the constructs of translateLoops: an `if` without `continue`
// (the rest of the body follows in both branches), `pattern, err := origins.ParsePattern(raw)` followed by
// `if err != nil { errs = append(errs, err); continue }` (a `match` on the model's parser), `pattern.IsDeemedInsecure()`,
// `pattern.Kind ==/!= origins.PatternKindSubdomains`, `if _, x := pattern.HostIsEffectiveTLD(); x { … }`,
// `tree.Insert(&pattern)`, the three `IncompatibleOriginPatternError` literals.  Statements that only write
// `discreteOrigin` (a variable the function never reads) are dropped.
func translateOriginLoop(p *pkgInfo) string {
	var loop *ast.RangeStmt
	if p != nil {
		for _, f := range p.files {
			for _, d := range f.Decls {
				if x, ok := d.(*ast.FuncDecl); ok && x.Name.Name == "validateOrigins" && x.Recv != nil && x.Body != nil {
					for _, st := range x.Body.List {
						if r, ok := st.(*ast.RangeStmt); ok && loop == nil {
							loop = r
						}
					}
				}
			}
		}
	}
	if loop == nil || exprText(loop.X) != "patterns" || loop.Value == nil || exprText(loop.Value) != "raw" {
		return "/-- the loop of `validateOrigins` is missing from the source (or ranges over something else). -/\ndef originStep : Unit := ()\n\n"
	}
	t := &tr{p: p}
	const stTy = "Validate.OState"
	var expr func(e ast.Expr) string
	expr = func(e ast.Expr) string {
		switch e := e.(type) {
		case *ast.ParenExpr:
			return "(" + expr(e.X) + ")"
		case *ast.Ident:
			switch e.Name {
			case "raw", "pattern":
				return e.Name
			case "pna":
				return "pnaAny"
			case "allowAnyOrigin":
				return "st.allowAny"
			}
		case *ast.SelectorExpr:
			switch exprText(e) {
			case "icfg.credentialed":
				return "credentialed"
			case "icfg.insecureOrigins":
				return "tolInsecure"
			case "icfg.subsOfPublicSuffixes":
				return "tolPSL"
			case "headers.ValueWildcard":
				return "Facts.headers_ValueWildcard"
			case "pattern.Kind":
				return "pattern.kind"
			case "origins.PatternKindSubdomains":
				return "Kind.subdomains"
			}
		case *ast.UnaryExpr:
			if e.Op == token.NOT {
				return "(!" + expr(e.X) + ")"
			}
		case *ast.BinaryExpr:
			if e.Op == token.LAND || e.Op == token.LOR || e.Op == token.EQL || e.Op == token.NEQ {
				return "(" + expr(e.X) + " " + e.Op.String() + " " + expr(e.Y) + ")"
			}
		case *ast.CallExpr:
			if exprText(e) == "pattern.IsDeemedInsecure()" {
				return "(Pat.isDeemedInsecure pattern)"
			}
		}
		return t.unsupported(e)
	}
	errVal := func(e ast.Expr) string {
		u, ok := e.(*ast.UnaryExpr)
		if ok && u.Op == token.AND {
			if cl, ok := u.X.(*ast.CompositeLit); ok && exprText(cl.Type) == "cfgerrors.IncompatibleOriginPatternError" && len(cl.Elts) == 2 {
				val, reason := "", ""
				for _, el := range cl.Elts {
					kv, ok := el.(*ast.KeyValueExpr)
					if !ok {
						return t.unsupported(e)
					}
					switch exprText(kv.Key) {
					case "Value":
						if tv, ok := p.info.Types[kv.Value]; ok && tv.Value != nil && tv.Value.Kind() == constant.String {
							val = leanBytes(constant.StringVal(tv.Value))
						} else {
							val = expr(kv.Value)
						}
					case "Reason":
						if tv, ok := p.info.Types[kv.Value]; ok && tv.Value != nil && tv.Value.Kind() == constant.String {
							reason = constant.StringVal(tv.Value)
						}
					}
				}
				if val != "" && (reason == "credentialed" || reason == "pna" || reason == "psl") {
					return "(CfgErr.incompatOrigin " + val + " ." + reason + ")"
				}
			}
		}
		return t.unsupported(e)
	}
	onlyDiscrete := func(list []ast.Stmt) bool {
		for _, s := range list {
			a, ok := s.(*ast.AssignStmt)
			if !ok || len(a.Lhs) != 1 || exprText(a.Lhs[0]) != "discreteOrigin" {
				return false
			}
		}
		return len(list) > 0
	}
	var stmts func(list []ast.Stmt, ind string) string
	stmts = func(list []ast.Stmt, ind string) string {
		if len(list) == 0 {
			return "st"
		}
		s, rest := list[0], list[1:]
		in := ind + "  "
		switch s := s.(type) {
		case *ast.BranchStmt:
			if s.Tok == token.CONTINUE && s.Label == nil {
				return "st"
			}
		case *ast.IfStmt:
			if s.Else == nil && s.Init == nil && onlyDiscrete(s.Body.List) {
				return stmts(rest, ind) // writes `discreteOrigin` only: a variable that is never read
			}
			if s.Else == nil && s.Init != nil && exprText(s.Init) == "_, isEffectiveTLD := pattern.HostIsEffectiveTLD()" && exprText(s.Cond) == "isEffectiveTLD" {
				return "if (Pat.hostIsEffectiveTLD ext pattern) then\n" + in + stmts(append(append([]ast.Stmt{}, s.Body.List...), rest...), in) + "\n" + ind + "else\n" + in + stmts(rest, in)
			}
			if s.Else == nil && s.Init == nil {
				return "if " + expr(s.Cond) + " then\n" + in + stmts(append(append([]ast.Stmt{}, s.Body.List...), rest...), in) + "\n" + ind + "else\n" + in + stmts(rest, in)
			}
		case *ast.ExprStmt:
			if exprText(s.X) == "tree.Insert(&pattern)" {
				return "let st : " + stTy + " := { st with tree := Tree.insert st.tree pattern }\n" + ind + stmts(rest, ind)
			}
		case *ast.AssignStmt:
			if len(s.Lhs) == 1 && len(s.Rhs) == 1 {
				l := exprText(s.Lhs[0])
				if l == "allowAnyOrigin" && s.Tok == token.ASSIGN && exprText(s.Rhs[0]) == "true" {
					return "let st : " + stTy + " := { st with allowAny := true }\n" + ind + stmts(rest, ind)
				}
				if l == "err" && s.Tok == token.DEFINE && len(rest) > 0 {
					if a, ok := rest[0].(*ast.AssignStmt); ok && a.Tok == token.ASSIGN && len(a.Lhs) == 1 && exprText(a.Lhs[0]) == "errs" && len(a.Rhs) == 1 && exprText(a.Rhs[0]) == "append(errs, err)" {
						return "let st : " + stTy + " := { st with errs := st.errs ++ [" + errVal(s.Rhs[0]) + "] }\n" + ind + stmts(rest[1:], ind)
					}
				}
			}
			// pattern, err := origins.ParsePattern(raw); if err != nil { errs = append(errs, err); continue }
			if s.Tok == token.DEFINE && len(s.Lhs) == 2 && exprText(s.Lhs[0]) == "pattern" && exprText(s.Lhs[1]) == "err" && len(s.Rhs) == 1 && exprText(s.Rhs[0]) == "origins.ParsePattern(raw)" && len(rest) > 0 {
				if is, ok := rest[0].(*ast.IfStmt); ok && is.Init == nil && is.Else == nil && exprText(is.Cond) == "err != nil" && codeText(is.Body) == "{ errs = append(errs, err) continue }" {
					return "match Pat.parsePattern ext raw with\n" + ind + "| .error reason__ => { st with errs := st.errs ++ [CfgErr.originPattern raw reason__] }\n" + ind + "| .ok pattern =>\n" + in + stmts(rest[1:], in)
				}
			}
		}
		return t.unsupported(s)
	}
	body := stmts(loop.Body.List, "  ")
	var b strings.Builder
	fmt.Fprintf(&b, "/-- one iteration of the loop of `validateOrigins`, translated from: %s -/\n", strings.ReplaceAll(codeText(loop.Body), "-/", "- /"))
	fmt.Fprintf(&b, "def originStep (ext : Ext) (credentialed pnaAny tolInsecure tolPSL : Bool) (st : %s) (raw : Bytes) : %s :=\n  %s\n\n", stTy, stTy, body)
	if len(t.bad) > 0 {
		fmt.Fprintf(&b, "/- UNSUPPORTED in the loop of validateOrigins: %s -/\n\n", strings.ReplaceAll(strings.Join(t.bad, " ;; "), "-/", "- /"))
	}
	return b.String()
}

// translateOrchestration: the order in which newInternalConfig runs the validators and accumulates their errors, as a
// function from the validators' results (each an optional error) to the list handed to errors.Join.  Supported statements:
// `if err := icfg.validateX(cfg.F); err != nil { errs = append(errs, err) }`, the PNA-modes test with its `new(…)` error,
// plain copies `icfg.f = cfg.F` (recorded with the number of validators already run), and the final
// `if len(errs) != 0 { return nil, errors.Join(errs...) }` / `return &icfg, nil`.
func translateOrchestration(p *pkgInfo) string {
	var fd *ast.FuncDecl
	if p != nil {
		for _, f := range p.files {
			for _, d := range f.Decls {
				if x, ok := d.(*ast.FuncDecl); ok && x.Name.Name == "newInternalConfig" && x.Body != nil {
					fd = x
				}
			}
		}
	}
	if fd == nil {
		return "/-- `newInternalConfig` is missing from the source. -/\ndef newInternalConfigOrder : Unit := ()\n\n"
	}
	t := &tr{p: p}
	arg := map[string]string{"validatePreflightStatus": "eStatus", "validateOrigins": "eOrigins", "validateMethods": "eMethods",
		"validateRequestHeaders": "eReqHdrs", "validateMaxAge": "eMaxAge", "validateResponseHeaders": "eResHdrs"}
	field := map[string]string{"validatePreflightStatus": "cfg.PreflightSuccessStatus", "validateOrigins": "cfg.Origins", "validateMethods": "cfg.Methods",
		"validateRequestHeaders": "cfg.RequestHeaders", "validateMaxAge": "cfg.MaxAgeInSeconds", "validateResponseHeaders": "cfg.ResponseHeaders"}
	var lines, copies []string
	ran := 0
	list := fd.Body.List
	ok := len(list) >= 4 && codeText(list[0]) == "if cfg == nil { return nil, nil }" &&
		codeText(list[len(list)-2]) == "if len(errs) != 0 { return nil, errors.Join(errs...) }" && codeText(list[len(list)-1]) == "return &icfg, nil"
	if !ok {
		t.bad = append(t.bad, "prologue or epilogue of newInternalConfig")
	} else {
		for _, st := range list[1 : len(list)-2] {
			txt := codeText(st)
			handled := false
			if _, isDecl := st.(*ast.DeclStmt); isDecl && txt == "var ( icfg internalConfig errs []error )" {
				handled = true
			}
			for v, a := range arg {
				if txt == "if err := icfg."+v+"("+field[v]+"); err != nil { errs = append(errs, err) }" {
					lines = append(lines, "let errs := match "+a+" with | some e => errs ++ [e] | none => errs")
					ran++
					handled = true
				}
			}
			if txt == "if cfg.PrivateNetworkAccess && cfg.PrivateNetworkAccessInNoCORSModeOnly { err := new(cfgerrors.IncompatiblePrivateNetworkAccessModesError) errs = append(errs, err) }" {
				lines = append(lines, "let errs := if (pna && pnaNoCors) then errs ++ [ETree.leaf CfgErr.pnaModes] else errs")
				handled = true
			}
			if a, isA := st.(*ast.AssignStmt); isA && a.Tok == token.ASSIGN && len(a.Lhs) == 1 && len(a.Rhs) == 1 &&
				strings.HasPrefix(exprText(a.Lhs[0]), "icfg.") && strings.HasPrefix(exprText(a.Rhs[0]), "cfg.") {
				copies = append(copies, fmt.Sprintf("%d:%s=%s", ran, exprText(a.Lhs[0]), exprText(a.Rhs[0])))
				handled = true
			}
			if !handled {
				t.bad = append(t.bad, txt)
				lines = append(lines, fmt.Sprintf("let errs : List Err := GoRt.unsupported %q", txt))
			}
		}
	}
	var b strings.Builder
	fmt.Fprintf(&b, "/-- the order in which `newInternalConfig` accumulates the validators' errors; copies made on the way (validators run so far:field): %s -/\n", strings.Join(copies, " ; "))
	fmt.Fprintf(&b, "def newInternalConfigOrder (pna pnaNoCors : Bool) (eStatus eOrigins eMethods eReqHdrs eMaxAge eResHdrs : Option Err) : List Err :=\n  let errs : List Err := []\n")
	if !ok {
		b.WriteString("  let errs : List Err := GoRt.unsupported \"prologue or epilogue\"\n")
	}
	for _, l := range lines {
		b.WriteString("  " + l + "\n")
	}
	b.WriteString("  errs\n\n")
	fmt.Fprintf(&b, "/-- the copies `icfg.f = cfg.F` of `newInternalConfig`, each with the number of validators that ran before it. -/\ndef newInternalConfigCopies : List Bytes := %s\n\n", leanBytesList(copies))
	if len(t.bad) > 0 {
		fmt.Fprintf(&b, "/- UNSUPPORTED in newInternalConfig: %s -/\n\n", strings.ReplaceAll(strings.Join(t.bad, " ;; "), "-/", "- /"))
	}
	return b.String()
}
