package main

import (
	"fmt"
	"go/ast"
	"go/constant"
	"sort"
	"strings"
)

// structural facts: statuses written by the preflight handler (more are added by other files).
func structural(pkgs map[string]*pkgInfo) {
	p := pkgs["cors"]
	if p == nil {
		return
	}
	failStatuses(p)
	moreStructural(pkgs)
}

func funcDecl(p *pkgInfo, name string) *ast.FuncDecl {
	for _, f := range p.files {
		for _, d := range f.Decls {
			if fd, ok := d.(*ast.FuncDecl); ok && fd.Name.Name == name {
				return fd
			}
		}
	}
	return nil
}

// failStatuses: the constant arguments of WriteHeader in handleCORSPreflight (the non-constant
// ones are the configured success status).
func failStatuses(p *pkgInfo) {
	fd := funcDecl(p, "handleCORSPreflight")
	set := map[int64]bool{}
	nonConst := 0
	if fd != nil {
		ast.Inspect(fd, func(n ast.Node) bool {
			call, ok := n.(*ast.CallExpr)
			if !ok || !strings.HasSuffix(calleeName(call), ".WriteHeader") || len(call.Args) != 1 {
				return true
			}
			if tv, ok := p.info.Types[call.Args[0]]; ok && tv.Value != nil && tv.Value.Kind() == constant.Int {
				v, _ := constant.Int64Val(tv.Value)
				set[v] = true
			} else {
				nonConst++
			}
			return true
		})
	}
	var vals []int64
	for v := range set {
		vals = append(vals, v)
	}
	sort.Slice(vals, func(i, j int) bool { return vals[i] < vals[j] })
	parts := make([]string, len(vals))
	for i, v := range vals {
		parts[i] = fmt.Sprint(v)
	}
	add("cors_preflightFailStatuses", ": List Nat := ["+strings.Join(parts, ", ")+"]",
		"distinct constant arguments of WriteHeader in handleCORSPreflight")
	add("cors_preflightNonConstStatusSites", fmt.Sprintf(": Nat := %d", nonConst), "WriteHeader calls with a computed (success) status")
}
