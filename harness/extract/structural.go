package main

// structural facts are added in a later step (lock regions, install sites, loops).
func structural(pkgs map[string]*pkgInfo) {}
