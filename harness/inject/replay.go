package main

import (
	"bufio"
	"encoding/hex"
	"fmt"
	"os"
	"strconv"
	"strings"

	"github.com/jub0bs/cors"
	"github.com/jub0bs/cors/internal/headers"
	"github.com/jub0bs/cors/internal/util"
)

// Replay mode: re-execute case lines (from a replay file or the corpus) against the real code.

func decBytes(s string) string {
	if s == "-" {
		return ""
	}
	b, err := hex.DecodeString(s)
	if err != nil {
		panic("bad hex " + s)
	}
	return string(b)
}

func decList(s string) []string {
	if s == "~" {
		return nil
	}
	parts := strings.Split(s, ",")
	out := make([]string, len(parts))
	for i, p := range parts {
		out[i] = decBytes(p)
	}
	return out
}

func decKVs(s string) []kv {
	if s == "~" {
		return nil
	}
	var out []kv
	for _, e := range strings.Split(s, ";") {
		k, v, _ := strings.Cut(e, "=")
		var vals []string
		if v == "~~" {
			vals = []string{}
		} else if v != "~" {
			vals = decList(v)
		}
		out = append(out, kv{decBytes(k), vals})
	}
	return out
}

func decConfig(s string) *cors.Config {
	if s == "nil" {
		return nil
	}
	f := strings.Split(s, "|")
	if len(f) != 11 {
		panic("bad config " + s)
	}
	atoi := func(x string) int { n, _ := strconv.Atoi(x); return n }
	c := &cors.Config{
		Origins: decList(f[0]), Credentialed: f[1] == "1", Methods: decList(f[2]), RequestHeaders: decList(f[3]),
		MaxAgeInSeconds: atoi(f[4]), ResponseHeaders: decList(f[5]),
	}
	c.PreflightSuccessStatus = atoi(f[6])
	c.PrivateNetworkAccess = f[7] == "1"
	c.PrivateNetworkAccessInNoCORSModeOnly = f[8] == "1"
	c.DangerouslyTolerateInsecureOrigins = f[9] == "1"
	c.DangerouslyTolerateSubdomainsOfPublicSuffixes = f[10] == "1"
	return c
}

func parseETree(toks []string) (*etree, []string) {
	if toks[0] == "J(" {
		t := &etree{kids: []*etree{}}
		rest := toks[1:]
		for rest[0] != ")" {
			var k *etree
			k, rest = parseETree(rest)
			t.kids = append(t.kids, k)
		}
		return t, rest[1:]
	}
	n, _ := strconv.Atoi(toks[0][1:])
	return &etree{leaf: n}, toks[1:]
}

func replayFile(path string, e *emitter) {
	f, err := os.Open(path)
	if err != nil {
		fmt.Fprintln(os.Stderr, err)
		os.Exit(2)
	}
	defer f.Close()
	sc := bufio.NewScanner(f)
	sc.Buffer(make([]byte, 1<<20), 1<<28)
	mws := map[string]*cors.Middleware{}
	shadow := map[string]*decider{}
	for sc.Scan() {
		line := sc.Text()
		if line == "" {
			continue
		}
		f := strings.Split(line, "\t")
		before := e.n
		func() {
			defer func() {
				if r := recover(); r != nil && e.n == before {
					e.emit(line, fmt.Sprintf("PANIC %v", r))
				}
			}()
			switch f[0] {
			case "parse":
				lexParse(e, decBytes(f[1]))
			case "pattern":
				lexPattern(e, decBytes(f[1]))
			case "tree":
				treeCase(e, decList(f[1]), decList(f[3]))
			case "check":
				names, lines := decList(f[1]), decList(f[2])
				e.emit(line, guard(func() string {
					var set util.SortedSet
					for _, nm := range names {
						set.Add(nm)
					}
					return encBool(headers.Check(set, lines)) + " " + strconv.Itoa(int(set.MaxLen())) + " " + encList(set.ToSlice())
				}))
			case "trim":
				s := decBytes(f[1])
				k, _ := strconv.Atoi(f[2])
				e.emit(line, guard(func() string {
					t, ok := headers.TrimOWS(s, k)
					if !ok {
						if t != s {
							return "none-but-modified"
						}
						return "none"
					}
					return "some " + encBytes(t)
				}))
			case "names":
				namesCase(e, decBytes(f[1]))
			case "validate":
				validateCase(e, *decConfig(f[1]))
			case "serve":
				serveCase(e, *decConfig(f[1]), f[3] == "1", request{method: decBytes(f[4]), hdrs: decKVs(f[5]), pre: decKVs(f[6])})
			case "errors":
				t, _ := parseETree(strings.Split(f[1], " "))
				brk, _ := strconv.Atoi(f[2])
				errorsCase(e, t, brk)
			case "h.zero":
				mws[f[1]] = new(cors.Middleware)
				registerLongLived(mws[f[1]])
				shadow[f[1]] = nil
				e.emit(line, "ok")
			case "h.new":
				c := decConfig(f[2])
				m, err := cors.NewMiddleware(*c)
				if err != nil {
					mws[f[1]] = new(cors.Middleware)
				registerLongLived(mws[f[1]])
					e.emit(line, errCount(err))
					return
				}
				mws[f[1]] = m
				registerLongLived(m)
				shadow[f[1]] = newDecider(c)
				e.emit(line, "ok")
			case "h.reconf":
				c := decConfig(f[2])
				m := mws[f[1]]
				e.emit(line, guard(func() string {
					if err := m.Reconfigure(c); err != nil {
						return errCount(err)
					}
					// Reconfigure(Config()) lines are indistinguishable from fresh ones here; the decider
					// built from the rendered configuration is used (conservative).
					shadow[f[1]] = newDecider(c)
					return "ok"
				}))
			case "h.debug":
				mws[f[1]].SetDebug(f[2] == "1")
				e.emit(line, "ok")
			case "h.config":
				m := mws[f[1]]
				e.emit(line, guard(func() string { return encConfig(m.Config()) }))
			case "h.serve":
				rq := request{method: decBytes(f[2]), hdrs: decKVs(f[3]), pre: decKVs(f[4])}
				dec := shadow[f[1]].decide(rq)
				f[5] = dec
				e.emit(strings.Join(f, "\t"), runRequest(mws[f[1]], rq)+"\t||\t"+dec)
			case "intent":
				c := decConfig(f[1])
				m, err := cors.NewMiddleware(*c)
				if err != nil {
					e.emit(line, "cfgerr")
					return
				}
				m.SetDebug(f[3] == "1")
				origin, method, names, pna, lines := decBytes(f[4]), decBytes(f[5]), decList(f[6]), f[8] == "1", decList(f[9])
				bm := browserMethod(method)
				unsafe := lowerSortedUnique(names)
				pre := "-"
				if !(bm == "GET" || bm == "HEAD" || bm == "POST") || len(unsafe) > 0 || pna {
					rq := request{method: "OPTIONS", hdrs: []kv{{"Origin", []string{origin}}, {"Access-Control-Request-Method", []string{bm}}}}
					if len(unsafe) > 0 {
						rq.hdrs = append(rq.hdrs, kv{"Access-Control-Request-Headers", lines})
					}
					if pna {
						rq.hdrs = append(rq.hdrs, kv{"Access-Control-Request-Private-Network", []string{"true"}})
					}
					pre = recordResp(m, rq)
				}
				f[10] = pre
				f[11] = recordResp(m, request{method: bm, hdrs: []kv{{"Origin", []string{origin}}}})
				e.emit(strings.Join(f, "\t"), "agree")
			case "pair":
				switch f[1] {
				case "C10":
					r1 := request{method: decBytes(f[4]), hdrs: decKVs(f[5]), pre: decKVs(f[6])}
					pairC10Case(e, *decConfig(f[2]), f[3] == "1", r1, request{hdrs: decKVs(f[7])})
				case "C09":
					pairC09(e, *decConfig(f[2]), request{method: decBytes(f[3]), hdrs: decKVs(f[4]), pre: decKVs(f[5])})
				case "C15":
					pairTwin(e, *decConfig(f[2]), *decConfig(f[3]), f[4] == "1", request{method: decBytes(f[5]), hdrs: decKVs(f[6]), pre: decKVs(f[7])})
				case "C06":
					var rqs []request
					for _, x := range f[3:] {
						p := strings.Split(x, "\x1f")
						rqs = append(rqs, request{method: decBytes(p[0]), hdrs: decKVs(p[1]), pre: decKVs(p[2])})
					}
					roundTrip(e, *decConfig(f[2]), rqs)
				default:
					e.emit(line, "UNKNOWN-OP")
				}
			default:
				e.emit(line, "UNKNOWN-OP")
			}
		}()
	}
}
