package main

// extraSuite dispatches suites defined in other files (concurrency, allocations, …).
func extraSuite(name string, g *gen, e *emitter, n int) bool { return false }
