package main

import (
	"net/http"
	"reflect"
	"slices"
	"strings"

	"github.com/jub0bs/cors"
)

// extraSuite dispatches suites defined in this file: relational ("pair") checks whose verdict is
// computed on the Go side by comparing two executions of the real code with each other. The model's
// answer to every pair line is the constant "ok": that is what the corresponding theorem says.
func extraSuite(name string, g *gen, e *emitter, n int) bool {
	switch name {
	case "pairs10":
		for i := 0; i < n; {
			c := g.config(100)
			if !accepts(c) {
				continue
			}
			for j := 0; j < 6 && i < n; j++ {
				pairC10(g, e, c, g.p(40), g.request(&c))
				i++
			}
		}
	case "pairs09":
		for i := 0; i < n; {
			c := g.config(100)
			if !accepts(c) {
				continue
			}
			for j := 0; j < 6 && i < n; j++ {
				pairC09(e, c, g.request(&c))
				i++
			}
		}
	case "twins":
		// "the meaning of `*` next to Authorization does not depend on which of the two is listed first": every combination of
		// credentialed access, a third discrete name, debug mode and seven shapes of the ACRH field, for both orders
		for _, cred := range []bool{false, true} {
			for _, extra := range [][]string{nil, {"X-Foo"}} {
				c1 := cors.Config{Origins: []string{"https://a.com"}, Credentialed: cred, Methods: []string{"PUT"},
					RequestHeaders: append([]string{"Authorization", "*"}, extra...)}
				c2 := c1
				c2.RequestHeaders = append(append([]string{"*"}, extra...), "authorization")
				for _, dbg := range []bool{false, true} {
					for _, acrh := range [][]string{nil, {"authorization"}, {"x-foo"}, {"authorization,x-foo"}, {"content-type,x-bar"}, {"x-bar", "authorization"}, {""}} {
						rq := request{method: "OPTIONS", hdrs: []kv{{"Origin", []string{"https://a.com"}}, {"Access-Control-Request-Method", []string{"PUT"}}}}
						if acrh != nil {
							rq.hdrs = append(rq.hdrs, kv{"Access-Control-Request-Headers", acrh})
						}
						pairTwin(e, c1, c2, dbg, rq)
					}
				}
			}
		}
		for i := 0; i < n; {
			c := g.config(100)
			if !accepts(c) {
				continue
			}
			t := g.twin(c)
			for j := 0; j < 5 && i < n; j++ {
				pairTwin(e, c, t, g.p(40), g.request(&c))
				i++
			}
		}
	case "roundtrip":
		for i := 0; i < n; {
			c := g.config(100)
			if !accepts(c) {
				continue
			}
			var rqs []request
			for j := 0; j < 5; j++ {
				rqs = append(rqs, g.request(&c))
			}
			roundTrip(e, c, rqs)
			i++
		}
	case "intents":
		suiteIntents(g, e, n)
	case "schedule":
		suiteSchedule(g, e, n)
	case "stress":
		suiteStress(g, e, n)
	case "allocs":
		suiteAllocs(e, n > 1)
	case "lexx":
		suiteLexX(e, n)
	case "acrhx":
		suiteACRHX(e, n)
	case "treex":
		suiteTreeX(e, n)
	case "ip6x":
		suiteIP6X(e, n)
	case "historyx":
		suiteHistoryX(e, n)
	case "validatex":
		suiteValidateX(e, n)
	case "servex":
		suiteServeX(e, n)
	default:
		return false
	}
	return true
}

// response of one request, in a comparable form
type response struct {
	out string // status \t next \t headers \t flags
}

func respond(c cors.Config, debug bool, rq request) string {
	return guard(func() string {
		m, err := cors.NewMiddleware(c)
		if err != nil {
			return "cfgerr"
		}
		m.SetDebug(debug)
		return runRequest(m, rq)
	})
}

func lookup(m []kv, k string) ([]string, bool) {
	for _, e := range m {
		if e.k == k {
			return e.v, true
		}
	}
	return nil, false
}

// addedVaryNames: the header names listed in the Vary values beyond those pre-set.
func addedVaryNames(out string, pre []kv) map[string]bool {
	names := map[string]bool{}
	f := strings.Split(out, "\t")
	if len(f) < 3 {
		return names
	}
	hdrs := decKVs(f[2])
	vary, _ := lookup(hdrs, "Vary")
	preVary, _ := lookup(pre, "Vary")
	if len(vary) >= len(preVary) {
		vary = vary[len(preVary):]
	}
	for _, v := range vary {
		if v == "X-Inner" {
			continue
		}
		for _, n := range strings.Split(v, ",") {
			names[http.CanonicalHeaderKey(strings.TrimSpace(n))] = true
		}
	}
	return names
}

// pairC10: r2 keeps the method and every header listed in the Vary of the first response and
// changes everything else; both responses must be equal.
func pairC10(g *gen, e *emitter, c cors.Config, debug bool, r1 request) {
	out1 := respond(c, debug, r1)
	names := addedVaryNames(out1, r1.pre)
	r2 := request{method: r1.method, pre: r1.pre}
	all := []string{"Origin", "Access-Control-Request-Method", "Access-Control-Request-Headers", "Access-Control-Request-Private-Network", "X-Unrelated"}
	alt := g.request(&c)
	for _, k := range all {
		v1, ok1 := lookup(r1.hdrs, k)
		if names[k] {
			if ok1 {
				r2.hdrs = append(r2.hdrs, kv{k, v1})
			}
			continue
		}
		// not listed: change it (other value, absent, or added)
		switch g.n(3) {
		case 0: // absent
		case 1:
			if v2, ok2 := lookup(alt.hdrs, k); ok2 {
				r2.hdrs = append(r2.hdrs, kv{k, v2})
			} else if k == "Origin" {
				r2.hdrs = append(r2.hdrs, kv{k, []string{g.originValue(&c)}})
			}
		default:
			if k == "Origin" {
				r2.hdrs = append(r2.hdrs, kv{k, []string{g.originValue(&c)}})
			} else {
				r2.hdrs = append(r2.hdrs, kv{k, []string{"GET"}})
			}
		}
	}
	pairC10Case(e, c, debug, r1, r2)
}

func pairC10Case(e *emitter, c cors.Config, debug bool, r1, r2 request) {
	line := "pair\tC10\t" + encConfig(&c) + "\t" + encBool(debug) + "\t" + encBytes(r1.method) + "\t" + encKVs(r1.hdrs) + "\t" + encKVs(r1.pre) + "\t" + encKVs(r2.hdrs)
	out1 := respond(c, debug, r1)
	// the hypothesis of the property: same method, agreement on every header named in the first response's Vary
	names := addedVaryNames(out1, r1.pre)
	for k := range names {
		v1, ok1 := lookup(r1.hdrs, k)
		v2, ok2 := lookup(r2.hdrs, k)
		if ok1 != ok2 || !slices.Equal(v1, v2) || (v1 == nil) != (v2 == nil) {
			e.emit(line, "ok") // hypothesis not met: nothing to check
			return
		}
	}
	out2 := respond(c, debug, request{method: r1.method, hdrs: r2.hdrs, pre: r1.pre})
	if out1 == out2 {
		e.emit(line, "ok")
	} else {
		e.emit(line, "C10-PAIR-DIFFERS first="+out1+" second="+out2)
	}
}

func isPreflight(rq request) bool {
	o, _ := lookup(rq.hdrs, "Origin")
	m, _ := lookup(rq.hdrs, "Access-Control-Request-Method")
	return rq.method == "OPTIONS" && len(o) > 0 && len(m) > 0
}

// pairC09: on a request that is not a preflight the debug flag must not matter.
func pairC09(e *emitter, c cors.Config, rq request) {
	line := "pair\tC09\t" + encConfig(&c) + "\t" + encBytes(rq.method) + "\t" + encKVs(rq.hdrs) + "\t" + encKVs(rq.pre)
	if isPreflight(rq) {
		// debug may only change diagnostics; the handler must not be reached in either mode
		on, off := respond(c, true, rq), respond(c, false, rq)
		fo, ff := strings.Split(on, "\t"), strings.Split(off, "\t")
		if len(fo) > 1 && len(ff) > 1 && fo[1] == "0" && ff[1] == "0" {
			e.emit(line, "ok")
		} else {
			e.emit(line, "C09-PREFLIGHT-REACHED-HANDLER on="+on+" off="+off)
		}
		return
	}
	on, off := respond(c, true, rq), respond(c, false, rq)
	if on == off {
		e.emit(line, "ok")
	} else {
		e.emit(line, "C09-DEBUG-CHANGES-NON-PREFLIGHT on="+on+" off="+off)
	}
}

// twin applies the transformations C15 declares irrelevant.
func (g *gen) twin(c cors.Config) cors.Config {
	t := c
	perm := func(s []string) []string {
		s = slices.Clone(s)
		g.r.Shuffle(len(s), func(i, j int) { s[i], s[j] = s[j], s[i] })
		if len(s) > 0 && g.p(40) {
			s = append(s, s[g.n(len(s))])
		}
		return s
	}
	recase := func(s []string) []string {
		for i := range s {
			switch g.n(3) {
			case 0:
				s[i] = strings.ToLower(s[i])
			case 1:
				s[i] = strings.ToUpper(s[i])
			}
		}
		return s
	}
	t.Origins = perm(c.Origins)
	t.Methods = perm(c.Methods)
	normalised := map[string]bool{"DELETE": true, "GET": true, "HEAD": true, "OPTIONS": true, "POST": true, "PUT": true}
	for i, m := range t.Methods {
		if normalised[strings.ToUpper(m)] {
			switch g.n(3) {
			case 0:
				t.Methods[i] = strings.ToLower(m)
			case 1:
				t.Methods[i] = strings.ToUpper(m)
			}
		}
	}
	if g.p(30) {
		t.Methods = append(t.Methods, pick(g, []string{"GET", "HEAD", "POST", "get", "Post"}))
	}
	t.RequestHeaders = recase(perm(c.RequestHeaders))
	t.ResponseHeaders = recase(perm(c.ResponseHeaders))
	if g.p(30) {
		t.ResponseHeaders = append(t.ResponseHeaders, pick(g, []string{"Cache-Control", "content-type", "Expires", "Pragma", "Last-Modified", "Content-Language", "CONTENT-LENGTH"}))
	}
	return t
}

func pairTwin(e *emitter, c, t cors.Config, debug bool, rq request) {
	line := "pair\tC15\t" + encConfig(&c) + "\t" + encConfig(&t) + "\t" + encBool(debug) + "\t" + encBytes(rq.method) + "\t" + encKVs(rq.hdrs) + "\t" + encKVs(rq.pre)
	a, b := respond(c, debug, rq), respond(t, debug, rq)
	if a == b {
		e.emit(line, "ok")
	} else {
		e.emit(line, "C15-TWINS-DIFFER first="+a+" twin="+b)
	}
}

// roundTrip: C06. Three middlewares (from c, from Config() of the first, zero value reconfigured with &c)
// answer a request suite identically in both debug modes; Reconfigure(Config()) succeeds and changes nothing;
// Config() is stable after one round trip.
func roundTrip(e *emitter, c cors.Config, rqs []request) {
	parts := []string{"pair", "C06", encConfig(&c)}
	for _, rq := range rqs {
		parts = append(parts, encBytes(rq.method)+"\x1f"+encKVs(rq.hdrs)+"\x1f"+encKVs(rq.pre))
	}
	line := strings.Join(parts, "\t")
	e.emit(line, guard(func() string {
		m1, err := cors.NewMiddleware(c)
		if err != nil {
			return "ok" // not an accepted configuration: nothing to check
		}
		cfg1 := m1.Config()
		m2, err := cors.NewMiddleware(*cfg1)
		if err != nil {
			return "C06-CONFIG-RESULT-REJECTED " + err.Error()
		}
		m3 := new(cors.Middleware)
		cc := c
		if err := m3.Reconfigure(&cc); err != nil {
			return "C06-ZERO-RECONFIGURE-REJECTED " + err.Error()
		}
		m4, _ := cors.NewMiddleware(c)
		if err := m4.Reconfigure(m4.Config()); err != nil {
			return "C06-RECONFIGURE-CONFIG-FAILED " + err.Error()
		}
		for _, dbg := range []bool{false, true} {
			for _, m := range []*cors.Middleware{m1, m2, m3, m4} {
				m.SetDebug(dbg)
			}
			for _, rq := range rqs {
				a := runRequest(m1, rq)
				for k, m := range []*cors.Middleware{m2, m3, m4} {
					if b := runRequest(m, rq); a != b {
						return "C06-RESPONSES-DIFFER variant=" + []string{"from-Config()", "zero+Reconfigure", "Reconfigure(Config())"}[k] + " first=" + a + " other=" + b
					}
				}
			}
		}
		cfg2 := m2.Config()
		m5, err := cors.NewMiddleware(*cfg2)
		if err != nil {
			return "C06-SECOND-ROUND-TRIP-REJECTED " + err.Error()
		}
		if cfg3 := m5.Config(); !reflect.DeepEqual(cfg2, cfg3) {
			return "C06-CONFIG-NOT-STABLE " + encConfig(cfg2) + " then " + encConfig(cfg3)
		}
		return "ok"
	}))
}
