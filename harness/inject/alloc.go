package main

import (
	"fmt"
	"net/http"
	"strings"
	"testing"

	"github.com/jub0bs/cors"
)

// C18: measured allocation counts of ServeHTTP for families of requests whose attacker-controlled
// sizes grow from 1 byte to 1 MiB / 1 to 100 000 list elements. Within a family the count must
// not grow with the size, and it must stay below a small constant.

type reuseWriter struct {
	h http.Header
}

func (w *reuseWriter) Header() http.Header         { return w.h }
func (w *reuseWriter) WriteHeader(int)             {}
func (w *reuseWriter) Write(b []byte) (int, error) { return len(b), nil }

const allocBound = 8

type allocFamily struct {
	name  string
	cfg   cors.Config
	debug bool
	// req builds the request for a size parameter
	req func(n int) *http.Request
	// pre: response headers an outer handler has set before the middleware runs
	pre map[string][]string
}

func pad(n int) string { return strings.Repeat("a", n) }

func allocFamilies() []allocFamily {
	discrete := cors.Config{Origins: []string{"https://example.com", "https://*.example.org:*"}, Methods: []string{"PUT", "DELETE"},
		RequestHeaders: []string{"Authorization", "X-Foo", "X-Bar"}, ResponseHeaders: []string{"X-Baz"}, MaxAgeInSeconds: 30}
	allowAll := cors.Config{Origins: []string{"*"}, Methods: []string{"*"}, RequestHeaders: []string{"*"}, ResponseHeaders: []string{"*"}}
	starAuth := cors.Config{Origins: []string{"*"}, RequestHeaders: []string{"*", "Authorization"}}
	credStar := cors.Config{Origins: []string{"https://example.com"}, Credentialed: true, Methods: []string{"*"}, RequestHeaders: []string{"*"}}
	mk := func(method string, h map[string][]string) *http.Request {
		return &http.Request{Method: method, Header: http.Header(h)}
	}
	upstream := map[string][]string{"Vary": {"Accept-Encoding"}, "Access-Control-Allow-Headers": {"x-upstream"}, "Access-Control-Allow-Methods": {"PATCH"},
		"Access-Control-Allow-Origin": {"https://upstream.example"}, "Access-Control-Expose-Headers": {"x-up"}, "Access-Control-Allow-Credentials": {"true"},
		"Access-Control-Max-Age": {"1"}, "Access-Control-Allow-Private-Network": {"true"}}
	var fams []allocFamily
	for _, c := range []struct {
		name string
		cfg  cors.Config
	}{{"discrete", discrete}, {"allow-all", allowAll}, {"star+authorization", starAuth}, {"credentialed-star", credStar}} {
		for _, dbg := range []bool{false, true} {
			c, dbg := c, dbg
			tag := c.name + fmt.Sprintf("/debug=%v", dbg)
			fams = append(fams,
				allocFamily{tag + "/actual GET, long Origin", c.cfg, dbg, func(n int) *http.Request {
					return mk("GET", map[string][]string{"Origin": {"https://" + pad(n) + ".example.org"}})
				}, nil},
				allocFamily{tag + "/preflight, long Origin", c.cfg, dbg, func(n int) *http.Request {
					return mk("OPTIONS", map[string][]string{"Origin": {"https://" + pad(n) + ".example.org"}, "Access-Control-Request-Method": {"PUT"}})
				}, nil},
				allocFamily{tag + "/preflight, long ACRM", c.cfg, dbg, func(n int) *http.Request {
					return mk("OPTIONS", map[string][]string{"Origin": {"https://example.com"}, "Access-Control-Request-Method": {"PUT" + pad(n)}})
				}, nil},
				allocFamily{tag + "/preflight, long ACRM with non-ASCII bytes", c.cfg, dbg, func(n int) *http.Request {
					return mk("OPTIONS", map[string][]string{"Origin": {"https://example.com"}, "Access-Control-Request-Method": {"PUT" + strings.Repeat("\xc3\xa9\xff", n)}})
				}, nil},
				allocFamily{tag + "/preflight, long ACRH name with non-ASCII bytes", c.cfg, dbg, func(n int) *http.Request {
					return mk("OPTIONS", map[string][]string{"Origin": {"https://example.com"}, "Access-Control-Request-Method": {"PUT"},
						"Access-Control-Request-Headers": {"x-bar,x-foo" + strings.Repeat("\xc3\xa9\xff", n)}})
				}, nil},
				allocFamily{tag + "/preflight, long ACRH name", c.cfg, dbg, func(n int) *http.Request {
					return mk("OPTIONS", map[string][]string{"Origin": {"https://example.com"}, "Access-Control-Request-Method": {"PUT"},
						"Access-Control-Request-Headers": {"x-bar,x-foo" + pad(n)}})
				}, nil},
				allocFamily{tag + "/preflight, many ACRH elements", c.cfg, dbg, func(n int) *http.Request {
					return mk("OPTIONS", map[string][]string{"Origin": {"https://example.com"}, "Access-Control-Request-Method": {"PUT"},
						"Access-Control-Request-Headers": {strings.Repeat("x-bar,", n) + "x-foo"}})
				}, nil},
				allocFamily{tag + "/preflight, many ACRH lines", c.cfg, dbg, func(n int) *http.Request {
					lines := make([]string, n)
					for i := range lines {
						lines[i] = "x-foo"
					}
					return mk("OPTIONS", map[string][]string{"Origin": {"https://example.com"}, "Access-Control-Request-Method": {"PUT"},
						"Access-Control-Request-Headers": lines})
				}, nil},
				allocFamily{tag + "/preflight, many ACRH lines with upper-case names", c.cfg, dbg, func(n int) *http.Request {
					lines := make([]string, min(n, 20000))
					for i := range lines {
						lines[i] = "X-Foo"
					}
					return mk("OPTIONS", map[string][]string{"Origin": {"https://example.com"}, "Access-Control-Request-Method": {"PUT"},
						"Access-Control-Request-Headers": lines})
				}, nil},
				allocFamily{tag + "/preflight, allowed ACRH with padding", c.cfg, dbg, func(n int) *http.Request {
					return mk("OPTIONS", map[string][]string{"Origin": {"https://example.com"}, "Access-Control-Request-Method": {"PUT"},
						"Access-Control-Request-Headers": {"authorization, x-bar ,x-foo" + strings.Repeat(",", min(n, 10))}})
				}, nil},
				allocFamily{tag + "/preflight, many ACRH lines with optional whitespace", c.cfg, dbg, func(n int) *http.Request {
					lines := make([]string, min(n, 20000))
					for i := range lines {
						lines[i] = "x-bar, x-foo"
					}
					return mk("OPTIONS", map[string][]string{"Origin": {"https://example.com"}, "Access-Control-Request-Method": {"PUT"},
						"Access-Control-Request-Headers": lines})
				}, nil},
				allocFamily{tag + "/preflight, many ACRH lines, CORS response headers and Vary already set upstream", c.cfg, dbg, func(n int) *http.Request {
					lines := make([]string, n)
					for i := range lines {
						lines[i] = "x-foo"
					}
					return mk("OPTIONS", map[string][]string{"Origin": {"https://example.com"}, "Access-Control-Request-Method": {"PUT"},
						"Access-Control-Request-Headers": lines})
				}, upstream},
				allocFamily{tag + "/actual GET, long Origin, CORS response headers and Vary already set upstream", c.cfg, dbg, func(n int) *http.Request {
					return mk("GET", map[string][]string{"Origin": {"https://" + pad(n) + ".example.org"}})
				}, upstream},
			)
		}
	}
	// a configuration with many allowed names: the scanner really walks n elements
	var many []string
	for i := 0; i < 3000; i++ {
		many = append(many, fmt.Sprintf("x-h%05d", i))
	}
	manyCfg := cors.Config{Origins: []string{"https://example.com"}, RequestHeaders: many}
	for _, dbg := range []bool{false, true} {
		dbg := dbg
		for _, variant := range []string{"lower-case", "upper-case", "padded"} {
			variant := variant
			fams = append(fams, allocFamily{fmt.Sprintf("many-allowed-names/debug=%v/preflight listing the first n allowed names, %s", dbg, variant), manyCfg, dbg, func(n int) *http.Request {
				n = min(n, len(many))
				names := make([]string, n)
				for i := range names {
					switch variant {
					case "upper-case":
						names[i] = strings.ToUpper(many[i])
					case "padded":
						names[i] = " " + many[i] + "\t"
					default:
						names[i] = many[i]
					}
				}
				return mk("OPTIONS", map[string][]string{"Origin": {"https://example.com"}, "Access-Control-Request-Method": {"GET"},
					"Access-Control-Request-Headers": {strings.Join(names, ",")}})
			}, nil})
		}
	}
	return fams
}

func measure(f allocFamily, n int) (allocs float64, err error) {
	m, e := cors.NewMiddleware(f.cfg)
	if e != nil {
		return 0, e
	}
	m.SetDebug(f.debug)
	h := m.Wrap(http.HandlerFunc(func(http.ResponseWriter, *http.Request) {}))
	w := &reuseWriter{h: make(http.Header, 16)}
	req := f.req(n)
	// a pristine copy of the request's header values: restored (allocation-free) before every run,
	// so that a middleware that rewrites them in place is measured on fresh values each time
	pristine := map[string][]string{}
	for k, v := range req.Header {
		pristine[k] = append([]string(nil), v...)
	}
	restore := func() {
		for k, v := range pristine {
			copy(req.Header[k], v)
		}
	}
	// what an outer handler set: the same slices are installed again before every run (a map store into
	// a cleared map of sufficient capacity does not allocate), full to capacity so that appends copy
	preset := func() {
		for k, v := range f.pre {
			w.h[k] = v[:len(v):len(v)]
		}
	}
	// warm up (map growth of the reusable writer)
	for i := 0; i < 3; i++ {
		clear(w.h)
		preset()
		restore()
		h.ServeHTTP(w, req)
	}
	return testing.AllocsPerRun(20, func() {
		clear(w.h)
		preset()
		restore()
		h.ServeHTTP(w, req)
	}), nil
}

func suiteAllocs(e *emitter, thorough bool) {
	sizes := []int{1, 64, 4096, 100000}
	if thorough {
		sizes = []int{1, 16, 256, 4096, 65536, 100000, 1 << 20}
	}
	for _, f := range allocFamilies() {
		var counts []string
		verdict := "ok"
		first := -1.0
		for _, n := range sizes {
			a, err := measure(f, n)
			if err != nil {
				verdict = "CONFIG-REJECTED " + err.Error()
				break
			}
			counts = append(counts, fmt.Sprintf("%d:%.0f", n, a))
			if first < 0 {
				first = a
			}
			if a > first {
				verdict = fmt.Sprintf("ALLOCS-GROW family=%q size %d -> %.0f allocations (size %d -> %.0f)", f.name, sizes[0], first, n, a)
			}
			if a > allocBound {
				verdict = fmt.Sprintf("ALLOCS-ABOVE-BOUND family=%q size %d -> %.0f allocations (bound %d)", f.name, n, a, allocBound)
			}
		}
		e.emit("pair\tC18\t"+encBytes(f.name)+"\t"+strings.Join(counts, ","), verdict)
	}
}
