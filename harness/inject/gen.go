package main

import (
	"math/big"
	"math/rand/v2"
	"strconv"
	"strings"

	"github.com/jub0bs/cors"
)

type gen struct {
	r *rand.Rand
}

func newGen(seed uint64, stream uint64) *gen {
	return &gen{r: rand.New(rand.NewPCG(seed, 0x9e3779b97f4a7c15^stream))}
}

func (g *gen) n(k int) int { return g.r.IntN(k) }
func (g *gen) p(pct int) bool { return g.r.IntN(100) < pct }
func pick[T any](g *gen, xs []T) T { return xs[g.n(len(xs))] }

var schemePool = []string{"http", "https", "https", "https", "http", "htt", "httpx", "ws", "chrome-extension", "a+b.c-d", "h_t"}

var hostPool = []string{
	"example.com", "foo.com", "barfoo.com", "bar.com", "oo.com", "a.foo.com", "b.a.foo.com", "foo.com.",
	"example.org", "sub.example.com", "deep.sub.example.com", "xample.com", "com", "co.uk", "github.io",
	"foo.github.io", "localhost", "localhost.", "a.localhost", "kubernetes.default.svc", "foo_bar.example.com",
	"a-b.example.com", "1a.example.com", "example.c0m", "0x7f000001", "127.0.0.0x1", "10.0.0.0x1", "1.2.3.4a", "example.0x50", "1-2.3-4", "a.b.c.d.e.f", "m", "mm.m", "xn--bcher-kva.example",
	"xn--nxasmq6b.example.", "xn--a.example", "ab--c.example", "127.0.0.1", "127.0.0.2", "10.0.0.1", "192.168.1.1",
	"255.255.255.255", "1.2.3.4", "169.254.169.254", "[::1]", "[2001:db8::1]", "[2001:db8:aaaa:1111::100]", "[::]",
	"[fe80::1]", "[1:2:3:4:5:6:7:8]",
	// public suffixes of four and five labels, and a registrable domain below one
	"s3.dualstack.us-east-1.amazonaws.com", "execute-api.cn-north-1.amazonaws.com.cn", "cn-north-1.eb.amazonaws.com.cn",
	"foo.s3.dualstack.us-east-1.amazonaws.com", "s3.cn-north-1.amazonaws.com.cn", "kobe.jp", "city.kobe.jp", "a.b.kobe.jp", "ck", "www.ck", "foo.ck",
}

var weirdHostPool = []string{
	"", ".", ".com", "example..com", "example.com..", "-a.com", "a-.com", "EXAMPLE.com", "exämple.com", "1.2.3", "1.2.3.4.5",
	"256.1.1.1", "01.2.3.4", "1.2.3.4.", "[::1", "::1", "[::1]]", "[::ffff:1.2.3.4]", "[fe80::1%25eth0]", "[fe80::1%eth0]",
	"[0:0:0:0:0:0:0:1]", "[2001:DB8::1]", "[127.0.0.1]", "[1.2.3.4]", "[example.com]", "[]", "[", "*", "*.", "a*.com", "*a.com",
	"*.*.com", "a.*.com", "xn--.example", "xn--zz-zz-zz.example", "127.0.0.1.", "1", "0x7f.1", "user@example.com",
	// Punycode labels that only a laxer IDNA profile (no STD3 rules, no label validation, no Bidi rule, no length check) lets through
	"xn--a_b-kva.example", "xn--bcher_-kva.example", "xn--a.b_c.example", "xn--0ca.xn--_a-kva.example", "xn---bcher-kva.example", "xn--bcher--kva.example",
	"xn--mgbh0fb.0.example", "xn--" + "a23456789012345678901234567890123456789012345678901234567890" + ".example",
}

func (g *gen) label(n int) string {
	const alpha = "abcdefghijklmnopqrstuvwxyz0123456789"
	var b strings.Builder
	for i := 0; i < n; i++ {
		if i == 0 {
			b.WriteByte(alpha[g.n(26)])
		} else {
			b.WriteByte(alpha[g.n(len(alpha))])
		}
	}
	return b.String()
}

// longHost builds a domain of exactly n bytes (n >= 1) out of labels of at most 63 bytes.
func (g *gen) longHost(n int) string {
	var parts []string
	left := n
	for left > 0 {
		l := 63
		if left <= 63 {
			l = left
		} else if left == 64 {
			l = 62
		}
		parts = append(parts, g.label(l))
		left -= l
		if left > 0 {
			left-- // dot
		}
	}
	// make the last label start with a letter (label() does) so that it is not taken for IPv4
	return strings.Join(parts, ".")
}

// maximalPattern builds a pattern of the documented grammar at its length maxima: 64-byte scheme
// (all documented scheme bytes), 253-byte domain (251 after a wildcard label), optional trailing dot,
// 5-digit port; each maximum is relaxed with small probability so that its neighbours are hit too.
func (g *gen) maximalPattern() string {
	const later = "abcdefghijklmnopqrstuvwxyz0123456789+-."
	n := 64
	if g.p(20) {
		n = 63 + g.n(3)
	}
	var b strings.Builder
	for i := 0; i < n; i++ {
		if i == 0 {
			b.WriteByte(later[g.n(26)])
		} else {
			b.WriteByte(later[g.n(len(later))])
		}
	}
	scheme := b.String()
	if scheme == "file" || scheme == "https" {
		scheme = "x" + scheme[1:]
	}
	hl, wild := 253, ""
	if g.p(30) {
		hl, wild = 251, "*."
	}
	if g.p(20) {
		hl += g.n(3) - 1
	}
	host := wild + g.longHost(hl)
	if g.p(60) {
		host += "."
	}
	port := pick(g, []string{":65535", ":65535", ":10000", ":65534", ":65536", ":99999", ":*", ""})
	return scheme + "://" + host + port
}

func (g *gen) scheme() string {
	switch {
	case g.p(85):
		return pick(g, schemePool)
	case g.p(50):
		return g.label(pick(g, []int{63, 64, 64, 65, 65, 66}))
	default:
		return g.label(1 + g.n(70))
	}
}

func (g *gen) host() string {
	switch {
	case g.p(80):
		return pick(g, hostPool)
	case g.p(30):
		return g.longHost(pick(g, []int{251, 252, 253, 254, 250, 63, 64, 65, 127}))
	case g.p(30):
		return g.longHost(pick(g, []int{251, 252, 253})) + "."
	case g.p(50):
		return g.label(pick(g, []int{63, 64})) + ".com"
	default:
		return g.label(1+g.n(6)) + "." + pick(g, hostPool)
	}
}

var portPool = []string{"", "", "", ":*", ":8080", ":8081", ":65535", ":1", ":9090", ":3000"}
var weirdPortPool = []string{":", ":0", ":80", ":443", ":65536", ":99999", ":123456", ":080", ":8a", ":-1", ":*1", ":**", ": 80", ":８０",
	":18446744073709551616", ":18446744073709559696", ":4294975376", ":73616", ":9223372036854783888", ":00000000000000008080"}

// pattern generates an origin pattern; mostly valid.
func (g *gen) pattern() string {
	if g.p(3) {
		return pick(g, []string{"*", "null", "", "file://", "file:///tmp", "https://", "://a.com", "https:/a.com", "https//a.com"})
	}
	s := g.scheme() + "://"
	h := g.host()
	if g.p(8) {
		h = pick(g, weirdHostPool)
	}
	if g.p(25) {
		h = "*." + h
	}
	s += h
	if g.p(8) {
		s += pick(g, weirdPortPool)
	} else {
		s += pick(g, portPool)
	}
	if g.p(6) {
		s = g.mutate(s)
	}
	return s
}

// validPattern generates a pattern that is very likely accepted.
func (g *gen) validPattern() string {
	for {
		s := pick(g, []string{"http", "https", "https", "https", "chrome-extension", "ws"}) + "://"
		h := g.host()
		isIP := strings.HasPrefix(h, "[") || (h[0] >= '0' && h[0] <= '9' && strings.Count(h, ".") == 3 && !strings.ContainsAny(h, "abcdefghijklmnopqrstuvwxyz"))
		if isIP && strings.HasPrefix(s, "https") {
			s = "http://"
		}
		if !isIP && g.p(25) && len(h) <= 251 {
			h = "*." + h
		}
		s += h + pick(g, portPool)
		return s
	}
}

// relatedPattern derives from an accepted-looking pattern one that shares structure with it: the
// wildcard over its parent or over itself, a subdomain of it, the same host under another scheme or
// port. Redundant and overlapping entries are where the shape of the tree depends on insertion order.
func (g *gen) relatedPattern(pat string) string {
	i := strings.Index(pat, "://")
	if i < 0 || pat == "*" {
		return pat
	}
	scheme, rest := pat[:i], pat[i+3:]
	host, port := rest, ""
	if strings.HasPrefix(rest, "[") {
		if j := strings.IndexByte(rest, ']'); j >= 0 {
			host, port = rest[:j+1], rest[j+1:]
		}
	} else if j := strings.LastIndexByte(rest, ':'); j >= 0 {
		host, port = rest[:j], rest[j:]
	}
	isIP := strings.HasPrefix(host, "[") || (len(host) > 0 && host[0] >= '0' && host[0] <= '9' && !strings.ContainsAny(host, "abcdefghijklmnopqrstuvwxyz"))
	wild := strings.HasPrefix(host, "*.")
	base := strings.TrimPrefix(host, "*.")
	switch k := g.n(8); {
	case k == 0 && !isIP && !wild:
		if j := strings.IndexByte(base, '.'); j >= 0 && j+1 < len(base) {
			host = "*." + base[j+1:] // the wildcard that subsumes it
		}
	case k == 1 && !isIP && !wild:
		host = "*." + base // the wildcard below it
	case k == 2 && !isIP:
		host = pick(g, []string{"a.", "api.", "b.a.", "x"}) + base // a host the wildcard subsumes (or a sibling)
	case k == 3 && !isIP && wild:
		host = "*." + pick(g, []string{"a.", "api."}) + base // nested wildcards
	case k == 4:
		scheme = pick(g, []string{"http", "https", "ws", "chrome-extension"})
	case k == 5:
		port = pick(g, portPool)
	case k == 6:
		scheme = pick(g, []string{"http", "https", "ws"})
		port = pick(g, portPool)
	default:
		if wild {
			host = base
		}
	}
	return scheme + "://" + host + port
}

var junkSuffix = []string{"/", "/path", "?q=1", "?", "#f", " ", "\t", "\x00", "é", "/..", "@evil.com", ":80:80"}

var spliceJunk = []string{"@evil.test", ":evil.test", "X", "\x00", "\xc3\xa9", "://", "/", "?", "#", " ", "\t", ".", "..", "-", "_", "%41", "[", "]", "*", "0", ":"}

// splice inserts junk at a structural boundary of an origin or pattern: before or after `://`,
// before the port colon, at either end of the host, at the very end.
func (g *gen) splice(s string) string {
	i := strings.Index(s, "://")
	if i < 0 {
		return s + pick(g, spliceJunk)
	}
	hostStart := i + 3
	portColon := strings.LastIndex(s[hostStart:], ":")
	if strings.HasSuffix(s, "]") || (portColon >= 0 && strings.Contains(s[hostStart+portColon:], "]")) {
		portColon = -1
	}
	points := []int{i, hostStart, len(s)}
	if portColon >= 0 {
		points = append(points, hostStart+portColon, hostStart+portColon+1)
	}
	// structural deletions: the scheme separator, the port colon (also right after a bracket), a bracket
	switch g.n(8) {
	case 0:
		return s[:i] + s[hostStart:]
	case 1:
		if j := strings.LastIndex(s, "]:"); j >= 0 {
			return s[:j+1] + s[j+2:]
		}
		if portColon >= 0 {
			return s[:hostStart+portColon] + s[hostStart+portColon+1:]
		}
	case 2:
		if j := strings.IndexByte(s, ']'); j >= 0 {
			return s[:j] + s[j+1:]
		}
	}
	if i > 0 {
		points = append(points, i-1, 1)
	}
	at := pick(g, points)
	return s[:at] + pick(g, spliceJunk) + s[at:]
}

func (g *gen) mutate(s string) string {
	switch g.n(12) {
	case 9, 10, 11:
		return g.splice(s)
	case 0:
		return s + pick(g, junkSuffix)
	case 1:
		return " " + s
	case 2:
		return strings.ToUpper(s)
	case 3:
		if len(s) > 0 {
			i := g.n(len(s))
			return s[:i] + s[i+1:]
		}
	case 4:
		if len(s) > 0 {
			i := g.n(len(s))
			return s[:i] + string(rune(g.n(256))) + s[i:]
		}
	case 5:
		if len(s) > 0 {
			i := g.n(len(s))
			b := []byte(s)
			b[i] = byte(g.n(256))
			return string(b)
		}
	case 6:
		if i := strings.Index(s, "://"); i >= 0 {
			return s[:i+3] + "user:pw@" + s[i+3:]
		}
	case 7:
		if i := strings.Index(s, "://"); i >= 0 && len(s) > i+4 {
			j := i + 3 + g.n(len(s)-i-3)
			return s[:j] + strings.ToUpper(s[j:j+1]) + s[j+1:]
		}
	case 8:
		return s + s
	}
	return s
}

// wrapTwins: decimal strings that a fixed-width integer parser without a length cap would take for
// port p (p + 2^16, 2^32, 2^63, 2^64 and a multiple), and p itself with leading zeros.
func wrapTwins(p int) []string {
	var out []string
	for _, sh := range []uint{16, 32, 63, 64} {
		v := new(big.Int).Lsh(big.NewInt(1), sh)
		v.Add(v, big.NewInt(int64(p)))
		out = append(out, ":"+v.String())
	}
	v := new(big.Int).Lsh(big.NewInt(3), 64)
	v.Add(v, big.NewInt(int64(p)))
	out = append(out, ":"+v.String(), ":0"+strconv.Itoa(p), ":000000"+strconv.Itoa(p))
	return out
}

// probesFor derives origins (request side) from a pattern string: itself and near misses.
func (g *gen) probesFor(pat string) []string {
	i := strings.Index(pat, "://")
	if i < 0 {
		return []string{pat}
	}
	scheme, rest := pat[:i], pat[i+3:]
	host, port := rest, ""
	if strings.HasPrefix(rest, "[") {
		if j := strings.IndexByte(rest, ']'); j >= 0 {
			host, port = rest[:j+1], rest[j+1:]
		}
	} else if j := strings.LastIndexByte(rest, ':'); j >= 0 {
		host, port = rest[:j], rest[j:]
	}
	wild := strings.HasPrefix(host, "*.")
	base := strings.TrimPrefix(host, "*.")
	var hosts []string
	if wild {
		hosts = []string{"a." + base, "b.a." + base, base, "x" + base, "." + base, "a" + base, "a.." + base, "-." + base,
			strings.Repeat("a.", 3) + base}
		if len(base) > 1 {
			hosts = append(hosts, "a."+base[1:], "a."+base[:len(base)-1], "a."+base+"x", "a."+base+".")
		}
	} else {
		hosts = []string{base, "a." + base, "x" + base, base + "x", base + "."}
		if len(base) > 1 {
			hosts = append(hosts, base[1:], base[:len(base)-1])
		}
		if j := strings.IndexByte(base, '.'); j >= 0 {
			hosts = append(hosts, base[j+1:], base[j:])
		}
		hosts = append(hosts, strings.TrimSuffix(base, "."))
	}
	schemes := []string{scheme, scheme, scheme, scheme + "s", "x" + scheme}
	if len(scheme) > 1 {
		schemes = append(schemes, scheme[:len(scheme)-1], scheme[1:])
	}
	var ports []string
	switch port {
	case "":
		ports = []string{"", "", "", ":80", ":443", ":8080", ":65535", ":1"}
		ports = append(ports, wrapTwins(0)...)
	case ":*":
		ports = []string{"", ":80", ":443", ":8080", ":65535", ":1", ":0", ":65536"}
		ports = append(ports, wrapTwins(8080)...)
	default:
		ports = []string{port, port, port, "", port + "0", ":1", ":65535", ":80", ":443"}
		if len(port) > 2 {
			ports = append(ports, port[:len(port)-1])
		}
		if v, err := strconv.Atoi(port[1:]); err == nil && v >= 0 && v <= 65535 {
			ports = append(ports, wrapTwins(v)...)
		}
	}
	var out []string
	// the exact candidates first, then a sample of the cross product
	out = append(out, scheme+"://"+hosts[0]+ports[0])
	if strings.Contains(pat, "*") {
		// the text of a wildcard pattern is not an origin it denotes (a fast path comparing strings would say otherwise)
		out = append(out, pat, scheme+"://"+base+port)
	}
	if wild {
		// arbitrary-subdomain patterns match names of any length: only the length cap of origins.Parse
		// (maxSchemeLen + 3 + maxHostPortLen + 1 = 327 bytes) stands between them and an over-long origin.
		// Probes of exactly cap-1 … cap+1 bytes, of cap + len(scheme) (+1) bytes and of 400 bytes, always.
		const originCap = 64 + 3 + (253 + 1 + 5) + 1
		for _, total := range []int{originCap - 1, originCap, originCap + 1, originCap + len(scheme), originCap + len(scheme) + 1, 400} {
			if n := total - len(scheme) - 3 - 1 - len(base) - len(ports[0]); n >= 1 {
				out = append(out, scheme+"://"+g.longHost(n)+"."+base+ports[0])
			}
		}
	}
	for k := 0; k < 6; k++ {
		out = append(out, pick(g, schemes)+"://"+pick(g, hosts)+pick(g, ports))
	}
	for _, h := range hosts {
		if g.p(40) {
			out = append(out, scheme+"://"+h+ports[0])
		}
	}
	return out
}

var methodPool = []string{"GET", "POST", "HEAD", "PUT", "put", "Put", "DELETE", "delete", "PATCH", "patch", "OPTIONS", "options",
	"QUERY", "PURGE", "purge", "CHICKEN", "get", "post", "M-SEARCH"}
var badMethodPool = []string{"TRAC\u212a", "trac\u212a",
	// what Unicode upper-casing (not byte-upper-casing) turns into a method Fetch normalises: U+017F, U+0131
	"po\u017ft", "PO\u017fT", "opt\u0131ons", "OPTION\u017f", "delet\u0113", "he\u00e4d", "CONNECT", "connect", "TRACE", "trace", "TRACK", "tRaCk", "", "bad method", "résumé", "a,b", "(", "GET "}

var reqHdrPool = []string{"Authorization", "authorization", "AUTHORIZATION", "X-Foo", "x-foo", "X-FOO", "Content-Type", "content-type",
	"X-Bar", "Accept", "X-Requested-With", "x-api-key", "Foo", "Foo-Bar", "a", "zz-top", "Cache-Control", "If-None-Match",
	// token bytes between 'Z' and 'a' (and other symbols) after an upper-case letter: byte-lowercasing must leave them alone
	"X_Request_Id", "x_request_id", "Foo^Bar", "A`b", "X|Y~z!", "Trace_ID", "_A_", "A.B", "A+b*C"}
var badReqHdrPool = []string{"", "bad name", "Sec-Foo", "sec-", "Sec-", "PROXY-", "sec-a b", "Sec-\x00", "proxy-é", "Proxy-a,b", "sec- ",
	// what Unicode case mapping (not byte-lowercasing) would take for special names: U+0130, U+212A, U+017F
	"Author\u0130zation", "author\u0131zation", "Coo\u212aie", "\u017fec-foo", "Acce\u017f\u017f-Control-Allow-Origin", "Or\u0130gin", "V\u0130a", "sec-fetch-mode", "Proxy-Authorization", "proxy-", "Origin", "origin", "Host", "Cookie",
	"Access-Control-Request-Method", "Access-Control-Allow-Origin", "access-control-allow-headers", "Access-Control-Max-Age",
	"Content-Length", "Connection", "Dnt", "Via", "résumé", "a,b", "Set-Cookie", "Access-Control-Request-Private-Network", "Cookie2", "TE", "date"}

var resHdrPool = []string{"X-Foo", "x-foo", "X-Bar", "X-Response-Time", "Content-Type", "content-length", "Cache-Control", "Expires",
	"Last-Modified", "Pragma", "Content-Language", "ETag", "Link", "Authorization", "a", "Content-Encoding", "X_Trace_Id", "Foo^Bar"}
var badResHdrPool = []string{"", "bad name", "\u017fet-Cookie", "Set-Coo\u212aie", "Or\u0130gin", "Set-Cookie", "set-cookie2", "Origin", "Access-Control-Request-Method", "Access-Control-Request-Headers",
	"Access-Control-Allow-Methods", "Access-Control-Allow-Headers", "Access-Control-Max-Age", "Access-Control-Allow-Private-Network",
	"Access-Control-Request-Private-Network", "résumé", "a,b"}

func (g *gen) list(pool, bad []string, star bool, maxLen int, badPct int) []string {
	n := g.n(maxLen + 1)
	longNames := len(pool) > 0 && &pool[0] != &methodPool[0]
	var out []string
	for i := 0; i < n; i++ {
		switch {
		case star && g.p(10):
			out = append(out, "*")
		case g.p(badPct) && len(bad) > 0:
			out = append(out, pick(g, bad))
		case longNames && g.p(4):
			// names at and around the widths a narrowed length field would wrap at
			out = append(out, "x-"+strings.Repeat(pick(g, []string{"a", "b"}), pick(g, []int{254, 255, 255, 256, 256, 257, 300, 511, 512, 65535, 65536})-2))
		default:
			out = append(out, pick(g, pool))
		}
	}
	if len(out) > 0 && g.p(10) {
		out = append(out, out[g.n(len(out))]) // duplicate
	}
	return out
}

// config generates a Config; validPct is the probability of aiming at an accepted one.
func (g *gen) config(validPct int) cors.Config {
	valid := g.p(validPct)
	// a share of the rejected configurations carries exactly one defect, at a random position of a
	// random list (also behind a `*`): acceptance then hinges on that single entry being reported
	single := !valid && g.p(45)
	if single {
		valid = true
	}
	badPct := 12
	if valid {
		badPct = 0
	}
	var c cors.Config
	no := 1 + g.n(4)
	if g.p(3) && !valid {
		no = 0
	}
	c.Credentialed = g.p(35)
	switch g.n(8) {
	case 0:
		c.PrivateNetworkAccess = true
	case 1:
		c.PrivateNetworkAccessInNoCORSModeOnly = true
	case 2:
		if !valid && g.p(30) {
			c.PrivateNetworkAccess, c.PrivateNetworkAccessInNoCORSModeOnly = true, true
		}
	}
	c.DangerouslyTolerateInsecureOrigins = g.p(50)
	c.DangerouslyTolerateSubdomainsOfPublicSuffixes = g.p(40)
	restricted := c.Credentialed || c.PrivateNetworkAccess || c.PrivateNetworkAccessInNoCORSModeOnly
	for i := 0; i < no; i++ {
		switch {
		case g.p(12) && !(valid && restricted):
			c.Origins = append(c.Origins, "*")
		case valid:
			c.Origins = append(c.Origins, g.validPattern())
		default:
			c.Origins = append(c.Origins, g.pattern())
		}
	}
	if len(c.Origins) > 0 && g.p(15) {
		c.Origins = append(c.Origins, c.Origins[g.n(len(c.Origins))])
	}
	if len(c.Origins) > 0 && g.p(25) {
		for k := 1 + g.n(2); k > 0; k-- {
			c.Origins = append(c.Origins, g.relatedPattern(pick(g, c.Origins)))
		}
		if g.p(50) {
			g.r.Shuffle(len(c.Origins), func(i, j int) { c.Origins[i], c.Origins[j] = c.Origins[j], c.Origins[i] })
		}
	}
	c.Methods = g.list(methodPool, badMethodPool, true, 4, badPct)
	c.RequestHeaders = g.list(reqHdrPool, badReqHdrPool, true, 5, badPct)
	c.ResponseHeaders = g.list(resHdrPool, badResHdrPool, !(valid && c.Credentialed), 4, badPct)
	if valid {
		c.MaxAgeInSeconds = pick(g, []int{0, 0, -1, 1, 5, 30, 600, 86400})
		c.PreflightSuccessStatus = pick(g, []int{0, 0, 0, 200, 204, 299, 202, 255, 256, 257})
	} else {
		c.MaxAgeInSeconds = pick(g, []int{0, -1, -2, 1, 30, 86400, 86401, -100, 1 << 40, -(1 << 40)})
		c.PreflightSuccessStatus = pick(g, []int{0, 200, 204, 299, 199, 300, -1, 456, 1 << 33, 100, 404, 65736, 65835, 196858, -65336, 1<<32 + 204, 1<<16 + 299})
	}
	if single {
		g.injectDefect(&c)
	}
	return c
}

// injectDefect puts one (very likely) invalid entry or value into an otherwise valid configuration.
func (g *gen) injectDefect(c *cors.Config) {
	ins := func(l []string, s string) []string {
		i := g.n(len(l) + 1)
		return append(l[:i:i], append([]string{s}, l[i:]...)...)
	}
	switch g.n(10) {
	case 0:
		c.Methods = ins(c.Methods, pick(g, badMethodPool))
	case 1, 2:
		c.RequestHeaders = ins(c.RequestHeaders, pick(g, badReqHdrPool))
	case 3:
		c.ResponseHeaders = ins(c.ResponseHeaders, pick(g, badResHdrPool))
	case 4:
		c.Origins = ins(c.Origins, g.mutate(g.validPattern()))
	case 5:
		c.Origins = ins(c.Origins, "https://"+pick(g, weirdHostPool)+pick(g, portPool))
	case 6:
		c.MaxAgeInSeconds = pick(g, []int{-2, 86401, -100, 1 << 40, -(1 << 40)})
	case 7:
		c.PreflightSuccessStatus = pick(g, []int{199, 300, -1, 456, 1 << 33, 100, 404, 200 + 256, 204 - 256, 200 + 65536, 299 + 65536, 204 + 3*65536, 204 - 65536, 1<<32 + 204, -(1 << 32) + 250})
	case 8:
		c.PrivateNetworkAccess, c.PrivateNetworkAccessInNoCORSModeOnly = true, true
	default:
		if g.p(50) {
			c.Credentialed = true
		} else {
			c.PrivateNetworkAccess = true
		}
		switch g.n(3) {
		case 0:
			c.Origins = ins(c.Origins, "*")
		case 1:
			c.Origins = ins(c.Origins, "http://"+pick(g, []string{"example.com", "a.foo.com:8080", "*.example.org"}))
			c.DangerouslyTolerateInsecureOrigins = false
		default:
			c.Credentialed = true
			c.ResponseHeaders = ins(c.ResponseHeaders, "*")
		}
	}
}

type kv struct {
	k string
	v []string
}

// zeroValues is a field that is present with zero values: a nil slice or a non-nil empty one
// (`h[k] = h[k][:0]` in an upstream filter); the two are encoded `~` and `~~`.
func (g *gen) zeroValues() []string {
	if g.p(50) {
		return nil
	}
	return []string{}
}

func encKVs(m []kv) string {
	if len(m) == 0 {
		return "~"
	}
	parts := make([]string, len(m))
	for i, e := range m {
		if e.v != nil && len(e.v) == 0 {
			parts[i] = encBytes(e.k) + "=~~"
			continue
		}
		parts[i] = encBytes(e.k) + "=" + encList(e.v)
	}
	return strings.Join(parts, ";")
}

var junkValues = []string{"", " ", "null", "*", "https://", "http://a.com/", "https://a.com:", "https://EXAMPLE.com", "\x00", "é", "https://a.com,https://b.com",
	"https://user@example.com", "https://example.com?x", "https://[example.com]", "https://example.com:080", "https://example.com:123456", "true", "TRUE", "false"}

// originValue derives an Origin header value from the configuration under test.
func (g *gen) originValue(c *cors.Config) string {
	if len(c.Origins) > 0 && g.p(80) {
		pat := pick(g, c.Origins)
		if pat == "*" {
			return pick(g, []string{"https://example.com", "http://foo.com:8080", "https://a.b.c"})
		}
		if strings.Contains(pat, "*") && g.p(8) {
			return pat // the pattern text itself, wildcards included
		}
		ps := g.probesFor(pat)
		if g.p(50) {
			return ps[0]
		}
		return pick(g, ps)
	}
	if g.p(50) {
		return pick(g, junkValues)
	}
	return g.mutate("https://example.com")
}

func lowerSortedUnique(names []string) []string {
	m := map[string]bool{}
	for _, n := range names {
		if n != "*" {
			m[strings.ToLower(n)] = true
		}
	}
	out := make([]string, 0, len(m))
	for n := range m {
		out = append(out, n)
	}
	sortStrings(out)
	return out
}

// acrhLines builds ACRH field lines from the configured names (browser-like with perturbations) or junk.
func (g *gen) acrhLines(c *cors.Config) []string {
	names := lowerSortedUnique(c.RequestHeaders)
	var elems []string
	for _, n := range names {
		if g.p(70) {
			elems = append(elems, n)
		}
	}
	if g.p(25) {
		elems = append(elems, pick(g, []string{"authorization", "x-unlisted", "content-type", "zzz", "a", "x-foo", "x-fo", "x-fooo", "X-Foo"}))
		if g.p(60) {
			sortStrings(elems)
		}
	}
	if g.p(8) && len(elems) > 1 {
		i, j := g.n(len(elems)), g.n(len(elems))
		elems[i], elems[j] = elems[j], elems[i]
	}
	if g.p(5) && len(elems) > 0 {
		elems = append(elems, elems[g.n(len(elems))])
	}
	// perturbations
	if g.p(40) {
		for i := range elems {
			if g.p(30) {
				elems[i] = pick(g, []string{" ", "\t", "  ", ""}) + elems[i] + pick(g, []string{" ", "\t", "  ", "", ""})
			}
		}
		ne := pick(g, []int{0, 0, 1, 2, 15, 16, 17})
		for k := 0; k < ne; k++ {
			i := g.n(len(elems) + 1)
			elems = append(elems[:i], append([]string{pick(g, []string{"", "", " ", "  ", "\t"})}, elems[i:]...)...)
		}
	}
	if len(elems) == 0 {
		if g.p(50) {
			return []string{""}
		}
		return []string{}
	}
	// split over lines
	nl := 1
	if g.p(25) {
		nl = 1 + g.n(3)
	}
	lines := make([]string, 0, nl)
	per := (len(elems) + nl - 1) / nl
	for i := 0; i < len(elems); i += per {
		j := i + per
		if j > len(elems) {
			j = len(elems)
		}
		lines = append(lines, strings.Join(elems[i:j], ","))
	}
	if g.p(5) {
		lines = append(lines, "")
	}
	return lines
}

type request struct {
	method string
	hdrs   []kv
	pre    []kv
}

func (g *gen) request(c *cors.Config) request {
	var rq request
	rq.method = pick(g, []string{"OPTIONS", "OPTIONS", "OPTIONS", "GET", "GET", "POST", "PUT", "options", "DELETE", "HEAD"})
	// Origin
	switch {
	case g.p(10):
	case g.p(3):
		rq.hdrs = append(rq.hdrs, kv{"Origin", g.zeroValues()})
	case g.p(5):
		rq.hdrs = append(rq.hdrs, kv{"Origin", []string{g.originValue(c), g.originValue(c)}})
	default:
		rq.hdrs = append(rq.hdrs, kv{"Origin", []string{g.originValue(c)}})
	}
	// ACRM
	switch {
	case g.p(25):
	case g.p(3):
		rq.hdrs = append(rq.hdrs, kv{"Access-Control-Request-Method", g.zeroValues()})
	case g.p(4):
		rq.hdrs = append(rq.hdrs, kv{"Access-Control-Request-Method", []string{""}})
	default:
		var m string
		if len(c.Methods) > 0 && g.p(60) {
			m = pick(g, c.Methods)
			if g.p(15) {
				m = strings.ToLower(m)
			} else if g.p(15) {
				m = strings.ToUpper(m)
			}
		} else {
			m = pick(g, methodPool)
		}
		vals := []string{m}
		if g.p(4) {
			vals = append(vals, pick(g, methodPool))
		}
		rq.hdrs = append(rq.hdrs, kv{"Access-Control-Request-Method", vals})
	}
	// ACRH
	switch {
	case g.p(35):
	case g.p(3):
		rq.hdrs = append(rq.hdrs, kv{"Access-Control-Request-Headers", g.zeroValues()})
	case g.p(8):
		rq.hdrs = append(rq.hdrs, kv{"Access-Control-Request-Headers", []string{pick(g, []string{"x-foo,,x-bar", "X-Foo", "x-foo , x-bar", ",", "\x00", "é", strings.Repeat("a", 300), strings.Repeat(",", 20), "authorization"})}})
	default:
		rq.hdrs = append(rq.hdrs, kv{"Access-Control-Request-Headers", g.acrhLines(c)})
	}
	// ACRPN
	switch {
	case g.p(70):
	case g.p(75):
		rq.hdrs = append(rq.hdrs, kv{"Access-Control-Request-Private-Network", []string{"true"}})
	case g.p(20):
		rq.hdrs = append(rq.hdrs, kv{"Access-Control-Request-Private-Network", g.zeroValues()})
	default:
		rq.hdrs = append(rq.hdrs, kv{"Access-Control-Request-Private-Network", []string{pick(g, []string{"false", "TRUE", "", "true ", "1"}), "true"}})
	}
	if g.p(10) {
		rq.hdrs = append(rq.hdrs, kv{"X-Unrelated", []string{"1"}})
	}
	// pre-set response headers
	if g.p(35) {
		n := 1 + g.n(3)
		used := map[string]bool{}
		for i := 0; i < n; i++ {
			k := pick(g, []string{"Vary", "Vary", "Access-Control-Allow-Origin", "Access-Control-Allow-Credentials", "Access-Control-Expose-Headers",
				"Access-Control-Allow-Methods", "Access-Control-Allow-Headers", "Access-Control-Max-Age", "Access-Control-Allow-Private-Network",
				"Content-Type", "X-Pre", "Cache-Control"})
			if used[k] {
				continue
			}
			used[k] = true
			var v []string
			switch g.n(5) {
			case 0:
				v = nil
			case 1:
				v = []string{"Accept-Encoding", "Cookie"}
			default:
				v = []string{pick(g, []string{"Accept-Encoding", "*", "pre", "https://pre.example", "true", "Origin", ""})}
			}
			rq.pre = append(rq.pre, kv{k, v})
		}
	}
	return rq
}

func sortStrings(s []string) {
	for i := 1; i < len(s); i++ {
		for j := i; j > 0 && s[j] < s[j-1]; j-- {
			s[j], s[j-1] = s[j-1], s[j]
		}
	}
}
