package main

import (
	"encoding/hex"
	"errors"
	"fmt"
	"net/http"
	"net/netip"
	"sort"
	"strconv"
	"strings"

	"github.com/jub0bs/cors"
	"github.com/jub0bs/cors/cfgerrors"
	"golang.org/x/net/idna"
	"golang.org/x/net/publicsuffix"
)

func encBytes(s string) string {
	if s == "" {
		return "-"
	}
	return hex.EncodeToString([]byte(s))
}

func encList(l []string) string {
	if len(l) == 0 {
		return "~"
	}
	parts := make([]string, len(l))
	for i, s := range l {
		parts[i] = encBytes(s)
	}
	return strings.Join(parts, ",")
}

func encBool(b bool) string {
	if b {
		return "1"
	}
	return "0"
}

// encHeader encodes a header map sorted by key; a key with zero values is kept (`k=~`).
func encHeader(h http.Header) string {
	if len(h) == 0 {
		return "~"
	}
	keys := make([]string, 0, len(h))
	for k := range h {
		keys = append(keys, k)
	}
	sort.Strings(keys)
	parts := make([]string, len(keys))
	for i, k := range keys {
		parts[i] = encBytes(k) + "=" + encList(h[k])
	}
	return strings.Join(parts, ";")
}

// encHeaderOrdered encodes an ordered association list (the harness's own request/pre maps).
func encConfig(c *cors.Config) string {
	if c == nil {
		return "nil"
	}
	return strings.Join([]string{
		encList(c.Origins), encBool(c.Credentialed), encList(c.Methods), encList(c.RequestHeaders),
		strconv.Itoa(c.MaxAgeInSeconds), encList(c.ResponseHeaders), strconv.Itoa(c.PreflightSuccessStatus),
		encBool(c.PrivateNetworkAccess), encBool(c.PrivateNetworkAccessInNoCORSModeOnly),
		encBool(c.DangerouslyTolerateInsecureOrigins), encBool(c.DangerouslyTolerateSubdomainsOfPublicSuffixes),
	}, "|")
}

var idnaProfile = idna.New(
	idna.BidiRule(),
	idna.ValidateLabels(true),
	idna.StrictDomainName(true),
	idna.VerifyDNSLength(true),
)

func isSchemeLater(b byte) bool {
	return b == '+' || b == '-' || b == '.' || b == '_' || ('0' <= b && b <= '9') || ('a' <= b && b <= 'z')
}

func isLabelByte(b byte) bool {
	return b == '-' || b == '_' || ('0' <= b && b <= '9') || ('a' <= b && b <= 'z')
}

// oracleKey is the harness's own (independent of /repo) computation of the host string about
// which the model consults the library oracles: scheme, "://", optional "*.", then either a
// bracketed literal or the longest run of label bytes and single dots.
func oracleKey(s string) (string, bool) {
	if len(s) == 0 || !('a' <= s[0] && s[0] <= 'z') {
		return "", false
	}
	i := 1
	for i < len(s) && i < 64 && isSchemeLater(s[i]) {
		i++
	}
	rest := s[i:]
	if !strings.HasPrefix(rest, "://") {
		return "", false
	}
	rest = rest[3:]
	rest = strings.TrimPrefix(rest, "*.")
	if len(rest) >= 4 && rest[0] == '[' {
		end := strings.IndexByte(rest, ']')
		if end < 0 {
			return "", false
		}
		return rest[1:end], true
	}
	if len(rest) == 0 || rest[0] == '.' {
		return "", false
	}
	j := 0
	for ; j < len(rest); j++ {
		if rest[j] == '.' {
			if rest[j-1] == '.' {
				return "", false
			}
			continue
		}
		if !isLabelByte(rest[j]) {
			break
		}
	}
	return rest[:j], true
}

// oracleFor answers, with the real libraries, the three questions the model may ask about
// the host of each pattern.
func oracleFor(patterns []string) string {
	seen := map[string]bool{}
	var parts []string
	for _, p := range patterns {
		k, ok := oracleKey(p)
		if !ok || seen[k] {
			continue
		}
		seen[k] = true
		_, err := idnaProfile.ToASCII(k)
		host := strings.TrimSuffix(k, ".")
		etld, _ := publicsuffix.PublicSuffix(host)
		ip6 := "n"
		if ip, err := netip.ParseAddr(k); err == nil {
			ip6 = encBytes(ip.String()) + "." + encBool(ip.Zone() != "") + "." + encBool(ip.Is4In6()) + "." + encBool(ip.IsLoopback())
		}
		parts = append(parts, encBytes(k)+":"+encBool(err == nil)+":"+encBool(etld == host)+":"+ip6)
	}
	if len(parts) == 0 {
		return "~"
	}
	return strings.Join(parts, ";")
}

func encCfgErr(e error) string {
	switch e := e.(type) {
	case *cfgerrors.UnacceptableOriginPatternError:
		return "O:" + encBytes(e.Value) + ":" + e.Reason
	case *cfgerrors.UnacceptableMethodError:
		return "M:" + encBytes(e.Value) + ":" + e.Reason
	case *cfgerrors.UnacceptableHeaderNameError:
		return "H:" + encBytes(e.Value) + ":" + e.Type + ":" + e.Reason
	case *cfgerrors.MaxAgeOutOfBoundsError:
		return fmt.Sprintf("A:%d:%d:%d:%d", e.Value, e.Default, e.Max, e.Disable)
	case *cfgerrors.PreflightSuccessStatusOutOfBoundsError:
		return fmt.Sprintf("S:%d:%d:%d:%d", e.Value, e.Default, e.Min, e.Max)
	case *cfgerrors.IncompatibleOriginPatternError:
		return "I:" + encBytes(e.Value) + ":" + e.Reason
	case *cfgerrors.IncompatiblePrivateNetworkAccessModesError:
		return "P"
	case *cfgerrors.IncompatibleWildcardResponseHeaderNameError:
		return "W"
	case nil:
		return "NIL"
	default:
		return fmt.Sprintf("UNKNOWN:%T", e)
	}
}

// encErrTree prints the shape errors.Join built.
func encErrTree(e error) string {
	if j, ok := e.(interface{ Unwrap() []error }); ok {
		var parts []string
		for _, c := range j.Unwrap() {
			parts = append(parts, encErrTree(c))
		}
		return "J(" + strings.Join(parts, " ") + ")"
	}
	return "L(" + encCfgErr(e) + ")"
}

// leafProblems checks what C05 says about every yielded error: non-nil pointer to an exported
// cfgerrors type and message prefix.
func leafProblems(err error) []string {
	var out []string
	for e := range cfgerrors.All(err) {
		if e == nil {
			out = append(out, "nil-leaf")
			continue
		}
		if strings.HasPrefix(encCfgErr(e), "UNKNOWN") {
			out = append(out, encCfgErr(e))
		}
		if !strings.HasPrefix(e.Error(), "cors: ") {
			out = append(out, "prefix:"+e.Error())
		}
	}
	return out
}

var errSentinel = errors.New("sentinel")
