package main

import (
	"errors"
	"fmt"
	"net/http"
	"slices"
	"strconv"
	"strings"

	"github.com/jub0bs/cors"
	"github.com/jub0bs/cors/cfgerrors"
	"github.com/jub0bs/cors/internal/headers"
	"github.com/jub0bs/cors/internal/methods"
	"github.com/jub0bs/cors/internal/origins"
	"github.com/jub0bs/cors/internal/util"
)

// guard runs f and converts a panic into an output line.
// safeAccepts reports whether NewMiddleware accepts c; a panic inside the library is recorded as a
// `validate` case of its own (so that the comparison flags it with the configuration as replay) and counts as a rejection.
func safeAccepts(e *emitter, c cors.Config) (ok bool) {
	defer func() {
		if r := recover(); r != nil {
			ok = false
			validateCase(e, c)
		}
	}()
	_, err := cors.NewMiddleware(c)
	return err == nil
}

// accepts reports whether NewMiddleware accepts c (a panic inside the library counts as a rejection here;
// the validate and history suites record such panics with their input).
func accepts(c cors.Config) (ok bool) {
	defer func() {
		if r := recover(); r != nil {
			ok = false
		}
	}()
	_, err := cors.NewMiddleware(c)
	return err == nil
}

func guard(f func() string) (out string) {
	defer func() {
		if r := recover(); r != nil {
			out = fmt.Sprintf("PANIC %v", r)
		}
	}()
	return f()
}

type recorder struct {
	h       http.Header
	status  int
	whCalls int
	body    []byte
}

func (r *recorder) Header() http.Header { return r.h }
func (r *recorder) WriteHeader(s int) {
	r.whCalls++
	if r.status == 0 {
		r.status = s
	}
}
func (r *recorder) Write(b []byte) (int, error) {
	if r.status == 0 {
		r.status = 200
	}
	r.body = append(r.body, b...)
	return len(b), nil
}

func cloneHeader(h http.Header) http.Header {
	out := make(http.Header, len(h))
	for k, v := range h {
		if v == nil {
			out[k] = nil
		} else {
			out[k] = append([]string{}, v...)
		}
	}
	return out
}

func headerOf(m []kv) http.Header {
	h := http.Header{}
	for _, e := range m {
		if e.v == nil {
			h[e.k] = nil
		} else {
			h[e.k] = append([]string{}, e.v...)
		}
	}
	return h
}

func headersEqual(a, b http.Header) bool {
	if len(a) != len(b) {
		return false
	}
	for k, v := range a {
		w, ok := b[k]
		if !ok || !slices.Equal(v, w) {
			return false
		}
	}
	return true
}

// adversary: what a hostile wrapped handler does to the slices it can reach (C12).
var adversarial bool

// runRequest sends one request through handler m.Wrap(inner) and prints
// status \t next \t headers-at-handler-entry-or-final \t flags.
// wrapState is a handler wrapped once, right after the middleware was created, and reused for later
// requests (the realistic use: Wrap at start-up, Reconfigure later); `cur` is what it calls.
type wrapState struct {
	h    http.Handler
	cur  http.HandlerFunc
	uses int
}

var longLived = map[*cors.Middleware]*wrapState{}

// registerLongLived wraps a trampoline now; history and replay call it when a middleware is created.
func registerLongLived(m *cors.Middleware) {
	ws := &wrapState{}
	func() {
		defer func() { recover() }()
		ws.h = m.Wrap(http.HandlerFunc(func(w http.ResponseWriter, r *http.Request) { ws.cur(w, r) }))
	}()
	if ws.h != nil {
		longLived[m] = ws
	}
}

func runRequest(m *cors.Middleware, rq request) string {
	return guard(func() string {
		rec := &recorder{h: headerOf(rq.pre)}
		req := &http.Request{Method: rq.method, Header: headerOf(rq.hdrs)}
		reqCopy := cloneHeader(req.Header)
		var (
			calls     int
			sameArgs  = true
			atEntry   http.Header
			statusIn  int
			expected  http.Header
			flags     []string
		)
		inner := http.HandlerFunc(func(w http.ResponseWriter, r *http.Request) {
			calls++
			if w != http.ResponseWriter(rec) || r != req {
				sameArgs = false
			}
			if !headersEqual(r.Header, reqCopy) {
				flags = append(flags, "request-headers-changed")
			}
			atEntry = cloneHeader(rec.h)
			statusIn = rec.status
			if adversarial {
				// a hostile handler overwrites, in place, every slice the middleware handed to it
				for _, v := range w.Header() {
					for i := range v {
						v[i] = "MUTATED-BY-HANDLER"
					}
				}
				for _, v := range r.Header {
					for i := range v {
						v[i] = "MUTATED-BY-HANDLER"
					}
				}
			}
			// the handler's own output
			w.Header().Add("Vary", "X-Inner")
			w.Header().Set("X-Inner", "1")
			expected = cloneHeader(rec.h)
			w.WriteHeader(418)
			w.Write([]byte("inner"))
			if adversarial {
				for _, v := range w.Header() {
					for i := range v {
						v[i] = "MUTATED-BY-HANDLER"
					}
				}
				for _, v := range r.Header {
					for i := range v {
						v[i] = "MUTATED-BY-HANDLER"
					}
				}
			}
		})
		if ws := longLived[m]; ws != nil && ws.uses%2 == 0 {
			// every other request of a registered middleware goes through the handler wrapped at creation time
			ws.uses++
			ws.cur = inner
			ws.h.ServeHTTP(rec, req)
		} else {
			if ws != nil {
				ws.uses++
			}
			m.Wrap(inner).ServeHTTP(rec, req)
		}
		var st, hdrs string
		if calls == 0 {
			if rec.status == 0 {
				st = "-"
			} else {
				st = strconv.Itoa(rec.status)
			}
			hdrs = encHeader(rec.h)
			if len(rec.body) != 0 {
				flags = append(flags, "body-written")
			}
			if rec.whCalls > 1 {
				flags = append(flags, "writeheader-calls="+strconv.Itoa(rec.whCalls))
			}
		} else {
			if statusIn == 0 {
				st = "-"
			} else {
				st = strconv.Itoa(statusIn)
			}
			hdrs = encHeader(atEntry)
			if calls != 1 {
				flags = append(flags, "handler-calls="+strconv.Itoa(calls))
			}
			if !sameArgs {
				flags = append(flags, "different-writer-or-request")
			}
			if !adversarial {
				if rec.status != 418 || string(rec.body) != "inner" || rec.whCalls != 1 {
					flags = append(flags, "handler-output-altered")
				}
				if !headersEqual(rec.h, expected) {
					flags = append(flags, "headers-altered-after-handler")
				}
			}
		}
		fl := "ok"
		if len(flags) > 0 {
			fl = strings.Join(flags, ",")
		}
		return st + "\t" + encBool(calls > 0) + "\t" + hdrs + "\t" + fl
	})
}

// decider answers, with the exported API of the internal packages and independently of the
// middleware, the two decisions the handler delegates: is this Origin value allowed, do these
// ACRH lines pass the discrete-list check (DESIGN.md 3d).
type decider struct {
	tree   origins.Tree
	set    util.SortedSet
	hasSet bool
	broken bool // building the decider panicked (the panic itself is reported by the suites that own it)
}

func newDecider(c *cors.Config) (d *decider) {
	if c == nil {
		return nil
	}
	defer func() {
		if r := recover(); r != nil {
			d = &decider{broken: true}
		}
	}()
	d = &decider{}
	allowAll := slices.Contains(c.Origins, "*")
	for _, o := range c.Origins {
		if o == "*" || allowAll {
			continue // `*` discards the discrete patterns
		}
		if p, err := origins.ParsePattern(o); err == nil {
			d.tree.Insert(&p)
		}
	}
	star := false
	for _, n := range c.RequestHeaders {
		if n == "*" {
			star = true
		}
	}
	if !star {
		for _, n := range c.RequestHeaders {
			d.set.Add(util.ByteLowercase(n))
			d.hasSet = true
		}
	}
	return d
}

// decide returns "PAH": origin parses, origin allowed, ACRH lines approved ('-' when not applicable).
func (d *decider) decide(rq request) (out string) {
	defer func() {
		if r := recover(); r != nil {
			out = "PANIC"
		}
	}()
	if d == nil {
		return "---"
	}
	if d.broken {
		return "PANIC"
	}
	p, a, h := "-", "-", "-"
	for _, e := range rq.hdrs {
		switch e.k {
		case "Origin":
			if len(e.v) > 0 {
				o, ok := origins.Parse(e.v[0])
				p, a = encBool(ok), encBool(ok && d.tree.Contains(&o))
			}
		case "Access-Control-Request-Headers":
			h = encBool(d.hasSet && headers.Check(d.set, e.v))
		}
	}
	return p + a + h
}

type emitter struct {
	cases, impl *strings.Builder
	n           int
}

func (e *emitter) emit(c, out string) {
	e.cases.WriteString(c)
	e.cases.WriteByte('\n')
	e.impl.WriteString(out)
	e.impl.WriteByte('\n')
	e.n++
	progress.Add(1)
}

// ---------------------------------------------------------------- suite lex

func encOrigin(o origins.Origin) string {
	return encBytes(o.Scheme) + " " + encBytes(o.Host.Value) + " " + encBool(o.Host.AssumeIP) + " " + strconv.Itoa(o.Port)
}

func lexParse(e *emitter, s string) {
	e.emit("parse\t"+encBytes(s), guard(func() string {
		o, ok := origins.Parse(s)
		if !ok {
			return "none"
		}
		return "some " + encOrigin(o)
	}))
}

func lexPattern(e *emitter, s string) {
	e.emit("pattern\t"+encBytes(s)+"\t"+oracleFor([]string{s}), guard(func() string {
		p, err := origins.ParsePattern(s)
		if err != nil {
			var oe *cfgerrors.UnacceptableOriginPatternError
			if !errors.As(err, &oe) || oe.Value != s {
				return "err-bad-type-or-value " + encCfgErr(err)
			}
			return "err " + oe.Reason
		}
		_, etld := p.HostIsEffectiveTLD()
		etld = etld && p.Kind == origins.PatternKindSubdomains
		return "ok " + encBytes(p.Scheme) + " " + encBytes(p.Value) + " " + strconv.Itoa(int(p.Kind)) + " " + strconv.Itoa(p.Port) +
			" " + encBool(p.IsDeemedInsecure()) + " " + encBool(etld)
	}))
}

func suiteLex(g *gen, e *emitter, n int) {
	// a deterministic sweep first: every pooled host (ordinary and weird) x scheme x port form x wildcard prefix
	if n >= 1000 {
		for _, h := range append(append([]string{}, hostPool...), weirdHostPool...) {
			for _, sch := range []string{"http", "https"} {
				for _, port := range []string{"", ":8080", ":*"} {
					for _, w := range []string{"", "*."} {
						s := sch + "://" + w + h + port
						lexPattern(e, s)
						lexParse(e, s)
						n--
					}
				}
				// the same host with a separator missing: no `://`, no colon before the port
				for _, s := range []string{sch + h + ":8080", sch + h, sch + "://" + h + "8080", sch + ":" + h, sch + "//" + h} {
					lexPattern(e, s)
					lexParse(e, s)
					n--
				}
			}
		}
	}
	for i := 0; i < n; i++ {
		var s string
		switch g.n(5) {
		case 4:
			if g.p(40) {
				s = g.maximalPattern()
			} else {
				s = g.validPattern()
			}
		case 0:
			s = g.validPattern()
		case 1:
			s = g.pattern()
		case 2:
			s = pick(g, g.probesFor(g.validPattern()))
		default:
			s = g.mutate(g.pattern())
		}
		lexPattern(e, s)
		lexParse(e, s)
	}
}

// ---------------------------------------------------------------- suite tree

func suiteTree(g *gen, e *emitter, n int) {
	for i := 0; i < n; i++ {
		np := 1 + g.n(6)
		var pats []string
		for j := 0; j < np; j++ {
			if g.p(90) {
				pats = append(pats, g.validPattern())
			} else {
				pats = append(pats, g.pattern())
			}
		}
		if g.p(30) {
			// force shared suffixes: derive more patterns from an existing one
			base := pats[0]
			for _, pr := range g.probesFor(base) {
				if g.p(30) {
					pats = append(pats, pr)
				}
			}
		}
		if g.p(20) {
			pats = append(pats, pats[g.n(len(pats))])
		}
		var probes []string
		for _, p := range pats {
			probes = append(probes, g.probesFor(p)...)
		}
		treeCase(e, pats, probes)
	}
}

func treeCase(e *emitter, pats, probes []string) {
	e.emit("tree\t"+encList(pats)+"\t"+oracleFor(pats)+"\t"+encList(probes), guard(func() string {
		var t origins.Tree
		for _, s := range pats {
			p, err := origins.ParsePattern(s)
			if err != nil {
				continue
			}
			t.Insert(&p)
		}
		var bits strings.Builder
		for _, q := range probes {
			o, ok := origins.Parse(q)
			switch {
			case !ok:
				bits.WriteByte('x')
			case t.Contains(&o):
				bits.WriteByte('1')
			default:
				bits.WriteByte('0')
			}
		}
		return encBool(t.IsEmpty()) + " " + bits.String() + " " + encList(t.Elems())
	}))
}

// ---------------------------------------------------------------- suite acrh

func suiteACRH(g *gen, e *emitter, n int) {
	for i := 0; i < n; i++ {
		c := cors.Config{RequestHeaders: g.list(reqHdrPool, nil, false, 6, 0)}
		names := lowerSortedUnique(c.RequestHeaders)
		if g.p(50) {
			// insertion order matters for Add: shuffle
			g.r.Shuffle(len(names), func(i, j int) { names[i], names[j] = names[j], names[i] })
		}
		var lines []string
		switch {
		case g.p(70):
			lines = g.acrhLines(&c)
		case g.p(50) && len(names) > 0:
			// around the length cut-off
			longest := 0
			for _, nm := range names {
				longest = max(longest, len(nm))
			}
			l := longest + pick(g, []int{-1, 0, 1, 2, 3, 4})
			if l < 0 {
				l = 0
			}
			el := strings.Repeat("a", l)
			if g.p(50) {
				el = pick(g, names) + strings.Repeat(" ", pick(g, []int{0, 1, 2, 3}))
			}
			lines = []string{el + "," + pick(g, names), pick(g, names) + "," + el}
			if g.p(50) {
				lines = lines[:1]
			}
		default:
			lines = []string{pick(g, junkValues), g.mutate("x-foo,x-bar")}
		}
		e.emit("check\t"+encList(names)+"\t"+encList(lines), guard(func() string {
			var set util.SortedSet
			for _, nm := range names {
				set.Add(nm)
			}
			return encBool(headers.Check(set, lines)) + " " + strconv.Itoa(int(set.MaxLen())) + " " + encList(set.ToSlice())
		}))
		s := pick(g, []string{"", " ", "  ", "   ", "\t", " \t", "a", " a", "a ", " a ", "  a", "a  ", "  a  ", "\ta\t", " a b ", "\x0ba", "a\x0c"})
		k := g.n(3)
		e.emit("trim\t"+encBytes(s)+"\t"+strconv.Itoa(k), guard(func() string {
			t, ok := headers.TrimOWS(s, k)
			if !ok {
				if t != s {
					return "none-but-modified"
				}
				return "none"
			}
			return "some " + encBytes(t)
		}))
	}
}

// ---------------------------------------------------------------- suite names

func namesCase(e *emitter, s string) {
	e.emit("names\t"+encBytes(s), guard(func() string {
		// the header predicates have the precondition "valid and byte-lowercase"
		l := strings.ToLower(s)
		ascii := true
		for i := 0; i < len(s); i++ {
			if s[i] >= 0x80 {
				ascii = false
			}
		}
		if !ascii {
			// strings.ToLower is not byte-lowercase outside ASCII; the model is ASCII-only there
			b := []byte(s)
			for i, c := range b {
				if 'A' <= c && c <= 'Z' {
					b[i] = c + 32
				}
			}
			l = string(b)
		}
		bits := []bool{headers.IsValid(s), headers.IsForbiddenRequestHeaderName(l), headers.IsProhibitedRequestHeaderName(l),
			headers.IsForbiddenResponseHeaderName(l), headers.IsProhibitedResponseHeaderName(l), headers.IsSafelistedResponseHeaderName(l),
			methods.IsValid(s)}
		var sb strings.Builder
		for _, b := range bits {
			sb.WriteString(encBool(b))
		}
		if ascii {
			sb.WriteString(encBool(methods.IsForbidden(s)) + encBool(methods.IsSafelisted(s)))
			return sb.String() + " " + encBytes(methods.Normalize(s)) + " " + encBytes(util.ByteLowercase(s)) + " " + encBytes(util.ByteUppercase(s))
		}
		// for non-ASCII input only the validity bits are comparable (all must be false)
		return sb.String() + "-- non-ascii"
	}))
}

func suiteNames(g *gen, e *emitter, n int) {
	// exhaustive part: every single byte, every pool entry and its case variants
	for b := 0; b < 256; b++ {
		namesCase(e, string([]byte{byte(b)}))
		namesCase(e, "a"+string([]byte{byte(b)}))
		// every byte after an upper-case letter, before one, and between two (byte-wise case mapping must leave non-letters alone)
		namesCase(e, "A"+string([]byte{byte(b)}))
		namesCase(e, string([]byte{byte(b)})+"Z")
		namesCase(e, "aZ"+string([]byte{byte(b)})+"Az")
	}
	pools := [][]string{methodPool, badMethodPool, reqHdrPool, badReqHdrPool, resHdrPool, badResHdrPool,
		{"accept-charset", "accept-encoding", "connection", "content-length", "cookie", "cookie2", "date", "dnt", "expect", "host", "keep-alive",
			"referer", "set-cookie", "te", "trailer", "transfer-encoding", "upgrade", "via", "proxy-x", "sec-x", "sec", "proxy", "sec-", "pro", "secx"}}
	for _, p := range pools {
		for _, s := range p {
			namesCase(e, s)
			namesCase(e, strings.ToUpper(s))
			namesCase(e, strings.ToLower(s))
			namesCase(e, s+"x")
			if len(s) > 1 {
				namesCase(e, s[:len(s)-1])
			}
		}
	}
	for i := 0; i < n; i++ {
		namesCase(e, g.mutate(pick(g, pick(g, pools))))
	}
}

// ---------------------------------------------------------------- suite validate

func validateCase(e *emitter, c cors.Config) {
	e.emit("validate\t"+encConfig(&c)+"\t"+oracleFor(c.Origins), guard(func() string {
		m, err := cors.NewMiddleware(c)
		if err != nil {
			if m != nil {
				return "err-with-non-nil-middleware"
			}
			if pr := leafProblems(err); len(pr) > 0 {
				return "err-leaf-problems " + strings.Join(pr, ";")
			}
			n := 0
			for range cfgerrors.All(err) {
				n++
			}
			return "err " + encErrTree(err) + " " + strconv.Itoa(n)
		}
		if m == nil {
			return "nil-middleware-without-error"
		}
		return "ok " + encConfig(m.Config())
	}))
}

func suiteValidate(g *gen, e *emitter, n int) {
	for i := 0; i < n; i++ {
		validateCase(e, g.config(55))
	}
}

// ---------------------------------------------------------------- suite serve

func serveCase(e *emitter, c cors.Config, debug bool, rq request) {
	dec := newDecider(&c).decide(rq)
	line := "serve\t" + encConfig(&c) + "\t" + oracleFor(c.Origins) + "\t" + encBool(debug) + "\t" + encBytes(rq.method) + "\t" + encKVs(rq.hdrs) + "\t" + encKVs(rq.pre) + "\t" + dec
	e.emit(line, guard(func() string {
		m, err := cors.NewMiddleware(c)
		if err != nil {
			return "cfgerr"
		}
		m.SetDebug(debug)
		return runRequest(m, rq) + "\t||\t" + dec
	}))
}

func suiteServe(g *gen, e *emitter, n int) {
	for i := 0; i < n; {
		c := g.config(92)
		k := 6
		for j := 0; j < k && i < n; j++ {
			serveCase(e, c, g.p(40), g.request(&c))
			i++
		}
	}
}

// ---------------------------------------------------------------- suite errors

type etree struct {
	leaf int
	kids []*etree
}

func (g *gen) etree(depth int, next *int) *etree {
	if depth == 0 || g.p(45) {
		*next++
		return &etree{leaf: *next}
	}
	n := 1 + g.n(4)
	t := &etree{}
	for i := 0; i < n; i++ {
		t.kids = append(t.kids, g.etree(depth-1, next))
	}
	return t
}

type leafErr struct{ id int }

func (l *leafErr) Error() string { return "leaf" + strconv.Itoa(l.id) }

func (t *etree) build() error {
	if t.kids == nil {
		return &leafErr{t.leaf}
	}
	var es []error
	for _, k := range t.kids {
		es = append(es, k.build())
	}
	return errors.Join(es...)
}

func (t *etree) enc() string {
	if t.kids == nil {
		return "L" + strconv.Itoa(t.leaf)
	}
	parts := []string{"J("}
	for _, k := range t.kids {
		parts = append(parts, k.enc())
	}
	parts = append(parts, ")")
	return strings.Join(parts, " ")
}

func (t *etree) count() int {
	if t.kids == nil {
		return 1
	}
	n := 0
	for _, k := range t.kids {
		n += k.count()
	}
	return n
}

func (t *etree) ids() []string {
	if t.kids == nil {
		return []string{strconv.Itoa(t.leaf)}
	}
	var out []string
	for _, k := range t.kids {
		out = append(out, k.ids()...)
	}
	return out
}

func errorsCase(e *emitter, t *etree, brk int) {
	e.emit("errors\t"+t.enc()+"\t"+strconv.Itoa(brk), guard(func() string {
		err := t.build()
		// one iterator value, ranged over several times: an iter.Seq is re-usable, and what one pass
		// did (in particular leaving it early) must not show in the next
		seq := cfgerrors.All(err)
		pass := func(brk int) []string {
			var ys []string
			seen := 0
			for x := range seq {
				seen++
				l, ok := x.(*leafErr)
				if !ok {
					ys = append(ys, "?")
				} else {
					ys = append(ys, strconv.Itoa(l.id))
				}
				if brk != 0 && seen >= brk {
					break
				}
			}
			return ys
		}
		ys := pass(brk)
		out := strings.Join(ys, " ") + "|0|" + strconv.Itoa(t.count())
		want := strings.Join(t.ids(), " ")
		for k := 2; k <= 3; k++ {
			if got := strings.Join(pass(0), " "); got != want {
				return out + " PASS-" + strconv.Itoa(k) + "-OVER-THE-SAME-ITERATOR-DIFFERS got=[" + got + "] want=[" + want + "]"
			}
		}
		return out
	}))
}

// wide: a join of `width` leaves, nested `depth` levels down a chain of single-child joins.
func wideTree(width, depth int) *etree {
	t := &etree{}
	for i := 1; i <= width; i++ {
		t.kids = append(t.kids, &etree{leaf: i})
	}
	for ; depth > 0; depth-- {
		t = &etree{kids: []*etree{t, {leaf: 100000 + depth}}}
	}
	return t
}

func suiteErrors(g *gen, e *emitter, n int) {
	// joins far wider than anything random generation builds: around the widths at which a fixed-size buffer would end
	for _, w := range []int{63, 64, 65, 127, 128, 129, 255, 256, 257, 1000} {
		for _, d := range []int{0, 2} {
			t := wideTree(w, d)
			for _, brk := range []int{0, 1, w - 1, w, w + 1} {
				errorsCase(e, t, brk)
			}
		}
	}
	for i := 0; i < n; i++ {
		next := 0
		t := g.etree(1+g.n(4), &next)
		cnt := t.count()
		for brk := 0; brk <= cnt+1; brk++ {
			errorsCase(e, t, brk)
		}
	}
}

// ---------------------------------------------------------------- suite history

func suiteHistory(g *gen, e *emitter, n int) {
	for i := 0; i < n; i++ {
		historyCase(g, e, i)
	}
}

func mutateStrings(s []string) {
	for i := range s {
		s[i] = "MUTATED-BY-CALLER"
	}
}

func mutateConfig(c *cors.Config) {
	if c == nil {
		return
	}
	mutateStrings(c.Origins)
	mutateStrings(c.Methods)
	mutateStrings(c.RequestHeaders)
	mutateStrings(c.ResponseHeaders)
	// also try to grow into spare capacity
	c.Origins = append(c.Origins[:0], "https://evil.example")
}

// mutateConfigValid overwrites, in place, the first element of every list of a Config the caller still holds with another
// acceptable value: the Config stays valid but means something else.  Handing it to Reconfigure again must put the new
// meaning in force (a Reconfigure that compares its argument with a remembered, aliased copy would skip it).
func mutateConfigValid(c *cors.Config) {
	if c == nil {
		return
	}
	if len(c.Origins) > 0 {
		c.Origins[0] = "https://mutated-by-caller.example"
	}
	if len(c.Methods) > 0 && c.Methods[0] != "*" {
		c.Methods[0] = "MUTATED"
	}
	if len(c.RequestHeaders) > 0 && c.RequestHeaders[0] != "*" {
		c.RequestHeaders[0] = "X-Mutated-By-Caller"
	}
	if len(c.ResponseHeaders) > 0 && c.ResponseHeaders[0] != "*" {
		c.ResponseHeaders[0] = "X-Mutated-By-Caller"
	}
}

func errCount(err error) string {
	n := 0
	for range cfgerrors.All(err) {
		n++
	}
	return "err " + strconv.Itoa(n)
}

func historyCase(g *gen, e *emitter, caseNo int) {
	nm := 1 + g.n(3)
	ids := make([]string, nm)
	mws := make([]*cors.Middleware, nm)
	shadow := make([]*decider, nm) // harness-side record of the configuration last applied successfully
	cur := make([]*cors.Config, nm) // the Config value last applied successfully (nil: passthrough)
	held := make([]*cors.Config, nm) // adversarial: the very Config value the caller passed last and still holds
	// a small pool of configurations: two accepted ones, one invalid
	var pool []cors.Config
	for len(pool) < 3 {
		c := g.config(100)
		if safeAccepts(e, c) {
			pool = append(pool, c)
		}
	}
	invalid := g.config(0)
	for safeAccepts(e, invalid) {
		invalid = g.config(0)
	}
	cloneCfg := func(c cors.Config) cors.Config {
		c.Origins = slices.Clone(c.Origins)
		c.Methods = slices.Clone(c.Methods)
		c.RequestHeaders = slices.Clone(c.RequestHeaders)
		c.ResponseHeaders = slices.Clone(c.ResponseHeaders)
		return c
	}
	probe := func(k int) {
		// state observation: Config(), a failing-preflight probe (shows debug), and a derived request
		e.emit("h.config\t"+ids[k], guard(func() string { return encConfig(mws[k].Config()) }))
		c := pool[g.n(len(pool))]
		rq := g.request(&c)
		dec := shadow[k].decide(rq)
		e.emit("h.serve\t"+ids[k]+"\t"+encBytes(rq.method)+"\t"+encKVs(rq.hdrs)+"\t"+encKVs(rq.pre)+"\t"+dec, runRequest(mws[k], rq)+"\t||\t"+dec)
		if g.p(35) {
			// the same request again with its ACRH field extended by one more line (a name nobody allows, a repetition of
			// the first line, or an empty line): a verdict must not depend on the request answered just before
			rq3 := rq
			rq3.hdrs = nil
			for _, h := range rq.hdrs {
				if h.k == "Access-Control-Request-Headers" && len(h.v) > 0 {
					extra := pick(g, []string{"x-evil-" + g.label(3), h.v[0], "", "zzz-last"})
					h = kv{h.k, append(append([]string(nil), h.v...), extra)}
				}
				rq3.hdrs = append(rq3.hdrs, h)
			}
			dec3 := shadow[k].decide(rq3)
			e.emit("h.serve\t"+ids[k]+"\t"+encBytes(rq3.method)+"\t"+encKVs(rq3.hdrs)+"\t"+encKVs(rq3.pre)+"\t"+dec3, runRequest(mws[k], rq3)+"\t||\t"+dec3)
		}
		// a preflight with a method nobody allows: differs between debug on and off once the origin passes
		for _, o := range c.Origins {
			if o == "*" {
				o = "https://example.com"
			}
			pr := g.probesFor(o)
			rq2 := request{method: "OPTIONS", hdrs: []kv{{"Origin", []string{pr[0]}}, {"Access-Control-Request-Method", []string{"NOBODY"}}}}
			dec2 := shadow[k].decide(rq2)
			e.emit("h.serve\t"+ids[k]+"\t"+encBytes(rq2.method)+"\t"+encKVs(rq2.hdrs)+"\t"+encKVs(rq2.pre)+"\t"+dec2, runRequest(mws[k], rq2)+"\t||\t"+dec2)
			break
		}
	}
	for k := 0; k < nm; k++ {
		ids[k] = fmt.Sprintf("c%d.m%d", caseNo, k)
		if g.p(50) {
			mws[k] = new(cors.Middleware)
			registerLongLived(mws[k])
			e.emit("h.zero\t"+ids[k], "ok")
		} else {
			c := cloneCfg(pool[g.n(len(pool))])
			line := "h.new\t" + ids[k] + "\t" + encConfig(&c) + "\t" + oracleFor(c.Origins)
			m, err := cors.NewMiddleware(c)
			if err != nil {
				e.emit(line, errCount(err))
				mws[k] = new(cors.Middleware)
				registerLongLived(mws[k])
				continue
			}
			mws[k] = m
			registerLongLived(m)
			shadow[k] = newDecider(&c)
			cc := cloneCfg(c)
			cur[k] = &cc
			e.emit(line, "ok")
			if adversarial {
				mutateConfig(&c)
			}
		}
		probe(k)
	}
	// relative derives from the configuration in force one that shares most of it: the same Origins with one switch
	// flipped (possibly invalid now), a list of the same length made of the old patterns with one repeated, a permutation,
	// one more related pattern. What a Reconfigure that reuses parts of the current configuration would get wrong.
	relative := func(c cors.Config) cors.Config {
		c = cloneCfg(c)
		switch g.n(8) {
		case 0:
			c.DangerouslyTolerateSubdomainsOfPublicSuffixes = !c.DangerouslyTolerateSubdomainsOfPublicSuffixes
		case 1:
			c.DangerouslyTolerateInsecureOrigins = !c.DangerouslyTolerateInsecureOrigins
		case 2:
			c.Credentialed = !c.Credentialed
		case 3:
			c.PrivateNetworkAccess = !c.PrivateNetworkAccess
		case 4:
			if len(c.Origins) > 1 {
				i, j := g.n(len(c.Origins)), g.n(len(c.Origins))
				c.Origins[i] = c.Origins[j]
			}
		case 5:
			g.r.Shuffle(len(c.Origins), func(i, j int) { c.Origins[i], c.Origins[j] = c.Origins[j], c.Origins[i] })
		case 6:
			if len(c.Origins) > 0 {
				c.Origins = append(c.Origins, g.relatedPattern(pick(g, c.Origins)))
			}
		default:
			if len(c.RequestHeaders) > 0 {
				c.RequestHeaders = c.RequestHeaders[:len(c.RequestHeaders)-1]
			} else {
				c.RequestHeaders = []string{"X-Foo", "X-Bar"}
			}
		}
		return c
	}
	steps := 4 + g.n(10)
	for s := 0; s < steps; s++ {
		k := g.n(nm)
		op := g.n(9)
		if adversarial && held[k] != nil && g.p(40) {
			op = 9
		}
		switch op {
		case 9:
			// the caller hands the Config it still holds - edited in place since - to Reconfigure again
			c := held[k]
			held[k] = nil
			e.emit("h.reconf\t"+ids[k]+"\t"+encConfig(c)+"\t"+oracleFor(c.Origins), guard(func() string {
				if err := mws[k].Reconfigure(c); err != nil {
					return errCount(err)
				}
				shadow[k] = newDecider(c)
				cc := cloneCfg(*c)
				cur[k] = &cc
				return "ok"
			}))
			mutateConfig(c)
		case 7, 8:
			base := pool[g.n(len(pool))]
			if cur[k] != nil {
				base = *cur[k]
			}
			c := relative(base)
			e.emit("h.reconf\t"+ids[k]+"\t"+encConfig(&c)+"\t"+oracleFor(c.Origins), guard(func() string {
				if err := mws[k].Reconfigure(&c); err != nil {
					return errCount(err)
				}
				shadow[k] = newDecider(&c)
				cc := cloneCfg(c)
				cur[k] = &cc
				return "ok"
			}))
			if adversarial {
				mutateConfig(&c)
			}
		case 0, 1:
			b := g.p(50)
			mws[k].SetDebug(b)
			e.emit("h.debug\t"+ids[k]+"\t"+encBool(b), "ok")
		case 2:
			e.emit("h.reconf\t"+ids[k]+"\tnil\t~", guard(func() string {
				if err := mws[k].Reconfigure(nil); err != nil {
					return "err"
				}
				shadow[k] = nil
				cur[k] = nil
				return "ok"
			}))
		case 3, 4:
			c := cloneCfg(pool[g.n(len(pool))])
			e.emit("h.reconf\t"+ids[k]+"\t"+encConfig(&c)+"\t"+oracleFor(c.Origins), guard(func() string {
				if err := mws[k].Reconfigure(&c); err != nil {
					return errCount(err)
				}
				shadow[k] = newDecider(&c)
				cc := cloneCfg(c)
				cur[k] = &cc
				return "ok"
			}))
			if adversarial {
				if g.p(50) {
					mutateConfigValid(&c)
					held[k] = &c
				} else {
					mutateConfig(&c)
				}
			}
		case 5:
			c := cloneCfg(invalid)
			e.emit("h.reconf\t"+ids[k]+"\t"+encConfig(&c)+"\t"+oracleFor(c.Origins), guard(func() string {
				err := mws[k].Reconfigure(&c)
				if err == nil {
					return "ok"
				}
				n := 0
				for range cfgerrors.All(err) {
					n++
				}
				return "err " + strconv.Itoa(n)
			}))
		case 6:
			// Reconfigure(Config()) must be a no-op
			cfg := mws[k].Config()
			if cfg == nil {
				e.emit("h.reconf\t"+ids[k]+"\tnil\t~", guard(func() string {
					if err := mws[k].Reconfigure(nil); err != nil {
						return "err"
					}
					return "ok"
				}))
			} else {
				e.emit("h.reconf\t"+ids[k]+"\t"+encConfig(cfg)+"\t"+oracleFor(cfg.Origins), guard(func() string {
					if err := mws[k].Reconfigure(cfg); err != nil {
						return errCount(err)
					}
					return "ok"
				}))
				if adversarial {
					mutateConfig(cfg)
				}
			}
		}
		if adversarial {
			// mutate a Config() result; must not matter
			mutateConfig(mws[k].Config())
		}
		probe(k)
		if nm > 1 && g.p(40) {
			probe((k + 1) % nm)
		}
	}
}
