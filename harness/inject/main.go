// Command verifdrv is the correspondence harness: it is overlaid into /repo's module at build time
// (go build -overlay), drives the real code over generated cases and writes two files: the case
// lines for the Lean driver and the implementation's canonical output, line by line.
package main

import (
	"flag"
	"fmt"
	"os"
	"runtime"
	"strings"
	"sync/atomic"
	"time"
)

// progress counts emitted lines; the watchdog ends the process when it stands still: a call into
// the implementation that never returns (a lock that is not released, an endless loop) must
// become a report, not a hung check.
var progress atomic.Int64

func watchdog(limit time.Duration) {
	last, since := int64(-1), time.Now()
	for {
		time.Sleep(time.Second)
		if p := progress.Load(); p != last {
			last, since = p, time.Now()
			continue
		}
		if time.Since(since) > limit {
			buf := make([]byte, 1<<16)
			buf = buf[:runtime.Stack(buf, true)]
			fmt.Fprintf(os.Stderr, "fatal error: harness watchdog: no progress for %v after %d lines: a call into the implementation does not return (deadlock or endless loop)\n%s\n", limit, last, buf)
			os.Exit(3)
		}
	}
}

func main() {
	suite := flag.String("suite", "", "suite name")
	seed := flag.Uint64("seed", 1, "PRNG seed")
	n := flag.Int("n", 1000, "number of generated cases")
	casesPath := flag.String("cases", "", "output: case lines")
	implPath := flag.String("impl", "", "output: implementation output lines")
	replay := flag.String("replay", "", "re-execute the case lines of this file instead of generating")
	adv := flag.Bool("adversarial", false, "perform caller-side and handler-side in-place mutations (C12)")
	stall := flag.Duration("stall", 120*time.Second, "watchdog: give up when no line has been produced for this long")
	flag.Parse()
	go watchdog(*stall)
	adversarial = *adv
	var cases, impl strings.Builder
	e := &emitter{cases: &cases, impl: &impl}
	if *replay != "" {
		replayFile(*replay, e)
		*suite = "replay"
	}
	g := newGen(*seed, uint64(len(*suite))*7919+uint64((*suite)[0]))
	switch *suite {
	case "replay":
	case "lex":
		suiteLex(g, e, *n)
	case "tree":
		suiteTree(g, e, *n)
	case "acrh":
		suiteACRH(g, e, *n)
	case "names":
		suiteNames(g, e, *n)
	case "validate":
		suiteValidate(g, e, *n)
	case "serve":
		suiteServe(g, e, *n)
	case "errors":
		suiteErrors(g, e, *n)
	case "history":
		suiteHistory(g, e, *n)
	default:
		if !extraSuite(*suite, g, e, *n) {
			fmt.Fprintln(os.Stderr, "unknown suite", *suite)
			os.Exit(2)
		}
	}
	if err := os.WriteFile(*casesPath, []byte(cases.String()), 0o644); err != nil {
		fmt.Fprintln(os.Stderr, err)
		os.Exit(2)
	}
	if err := os.WriteFile(*implPath, []byte(impl.String()), 0o644); err != nil {
		fmt.Fprintln(os.Stderr, err)
		os.Exit(2)
	}
	fmt.Printf("suite=%s seed=%d lines=%d\n", *suite, *seed, e.n)
}
