package main

import (
	"net/http"
	"regexp"
	"strings"

	"github.com/jub0bs/cors"
)

// C02: browser request intents derived from the configuration under test. The harness plays the
// network: it builds the preflight the way a Fetch-compliant browser does (normalised method,
// byte-lowercased / sorted / unique unsafe names), applies the intermediary alterations the
// documentation tolerates, sends preflight and actual request through the real middleware and
// hands both responses to the Lean browser model, which computes the verdict and compares it with
// what the configuration permits.

// scheme "://" host [":" port] with a lower-case scheme, a host made of LDH/underscore labels (optionally
// with a trailing dot) or a bracketed IPv6 literal, and a port without leading zero
var serialisedOrigin = regexp.MustCompile(`^[a-z][a-z0-9+.-]{0,63}://([a-z0-9_-]{1,63}(\.[a-z0-9_-]{1,63})*\.?|\[[0-9a-f:.]{2,39}\])(:[1-9][0-9]{0,3}|:[1-5][0-9]{4}|:6[0-4][0-9]{3})?$`)

var normalisable = map[string]bool{"DELETE": true, "GET": true, "HEAD": true, "OPTIONS": true, "POST": true, "PUT": true}

func browserMethod(m string) string {
	if u := strings.ToUpper(m); normalisable[u] {
		return u
	}
	return m
}

func (g *gen) intentNames(c *cors.Config) []string {
	pool := []string{"Authorization", "authorization", "X-Unlisted", "Content-Type", "x-foo", "X-Foo", "X-Bar", "Accept", "a", "zz-top"}
	for _, n := range c.RequestHeaders {
		if n != "*" {
			pool = append(pool, n, strings.ToUpper(n), strings.ToLower(n))
		}
	}
	k := pick(g, []int{0, 0, 1, 1, 2, 3, 4})
	var out []string
	for i := 0; i < k; i++ {
		if len(c.RequestHeaders) > 0 && g.p(60) {
			n := pick(g, c.RequestHeaders)
			if n == "*" {
				n = pick(g, pool)
			}
			out = append(out, n)
		} else {
			out = append(out, pick(g, pool))
		}
	}
	return out
}

// perturb applies tolerated intermediary alterations to the browser's single ACRH line.
func (g *gen) perturb(names []string) []string {
	elems := append([]string{}, names...)
	if g.p(35) {
		for i := range elems {
			if g.p(40) {
				elems[i] = pick(g, []string{" ", "\t", ""}) + elems[i] + pick(g, []string{" ", "\t", ""})
			}
		}
	}
	if g.p(25) {
		ne := pick(g, []int{1, 2, 8, 16})
		for k := 0; k < ne; k++ {
			i := g.n(len(elems) + 1)
			elems = append(elems[:i], append([]string{pick(g, []string{"", "", " "})}, elems[i:]...)...)
		}
	}
	nl := 1
	if g.p(25) {
		nl = 1 + g.n(3)
	}
	var lines []string
	per := (len(elems) + nl - 1) / nl
	for i := 0; i < len(elems); i += per {
		j := min(i+per, len(elems))
		lines = append(lines, strings.Join(elems[i:j], ","))
	}
	return lines
}

func recordResp(m *cors.Middleware, rq request) string {
	return guard(func() string {
		rec := &recorder{h: http.Header{}}
		req := &http.Request{Method: rq.method, Header: headerOf(rq.hdrs)}
		var atEntry http.Header
		called := false
		m.Wrap(http.HandlerFunc(func(http.ResponseWriter, *http.Request) {
			called = true
			atEntry = cloneHeader(rec.h)
		})).ServeHTTP(rec, req)
		h := rec.h
		st := "-"
		if called {
			h = atEntry
			st = "200" // the resource itself answers
		} else if rec.status != 0 {
			st = itoa(rec.status)
		}
		return st + "|" + encHeader(h)
	})
}

func itoa(n int) string {
	if n == 0 {
		return "0"
	}
	var b []byte
	for n > 0 {
		b = append([]byte{byte('0' + n%10)}, b...)
		n /= 10
	}
	return string(b)
}

func suiteIntents(g *gen, e *emitter, n int) {
	for i := 0; i < n; {
		c := g.config(100)
		m, err := cors.NewMiddleware(c)
		if err != nil {
			continue
		}
		for j := 0; j < 8 && i < n; j++ {
			i++
			debug := g.p(40)
			m.SetDebug(debug)
			origin := g.originValue(&c)
			// a browser only emits serialised tuple origins: keep derived origins of that shape, replace junk
			if !serialisedOrigin.MatchString(origin) || len(origin) > 300 {
				origin = "https://example.com"
			}
			var method string
			if len(c.Methods) > 0 && g.p(50) {
				method = pick(g, c.Methods)
				if method == "*" {
					method = pick(g, methodPool)
				}
				if g.p(20) {
					method = strings.ToLower(method)
				}
			} else {
				method = pick(g, methodPool)
			}
			names := g.intentNames(&c)
			creds := g.p(40)
			pna := g.p(20)
			// what a browser does
			bm := browserMethod(method)
			unsafe := lowerSortedUnique(names)
			need := !(bm == "GET" || bm == "HEAD" || bm == "POST") || len(unsafe) > 0 || pna
			pre := "-"
			var lines []string
			if need {
				rq := request{method: "OPTIONS", hdrs: []kv{{"Origin", []string{origin}}, {"Access-Control-Request-Method", []string{bm}}}}
				if len(unsafe) > 0 {
					lines = g.perturb(unsafe)
					rq.hdrs = append(rq.hdrs, kv{"Access-Control-Request-Headers", lines})
				}
				if pna {
					rq.hdrs = append(rq.hdrs, kv{"Access-Control-Request-Private-Network", []string{"true"}})
				}
				pre = recordResp(m, rq)
			}
			act := recordResp(m, request{method: bm, hdrs: []kv{{"Origin", []string{origin}}}})
			line := strings.Join([]string{"intent", encConfig(&c), oracleFor(c.Origins), encBool(debug), encBytes(origin), encBytes(method),
				encList(names), encBool(creds), encBool(pna), encList(lines), pre, act}, "\t")
			e.emit(line, "agree")
		}
	}
}
