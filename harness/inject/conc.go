package main

import (
	"fmt"
	"net/http"
	"reflect"
	"sync"
	"sync/atomic"
	"time"

	"github.com/jub0bs/cors"
)

// C07: (a) deterministic schedule points: a reconfiguration / SetDebug / Config call lands exactly
// where the middleware interacts with the ResponseWriter or hands over to the wrapped handler;
// the response must be the one the state current at request entry gives, and the next request must
// see the new state. (b) stress: many goroutines; every response must be the response of ONE of the
// possible (configuration, debug) states; with -race any data race aborts the run.

type hookWriter struct {
	recorder
	onHeader      func()
	onWriteHeader func()
}

func (w *hookWriter) Header() http.Header {
	if w.onHeader != nil {
		f := w.onHeader
		w.onHeader = nil
		f()
	}
	return w.h
}

func (w *hookWriter) WriteHeader(s int) {
	if w.onWriteHeader != nil {
		f := w.onWriteHeader
		w.onWriteHeader = nil
		f()
	}
	w.recorder.WriteHeader(s)
}

func runWithHook(m *cors.Middleware, rq request, point int, hook func()) string {
	return guard(func() string {
		w := &hookWriter{recorder: recorder{h: headerOf(rq.pre)}}
		req := &http.Request{Method: rq.method, Header: headerOf(rq.hdrs)}
		called := 0
		var atEntry http.Header
		inner := http.HandlerFunc(func(_ http.ResponseWriter, _ *http.Request) {
			called++
			atEntry = cloneHeader(w.h)
			if point == 2 && hook != nil {
				hook()
			}
		})
		switch point {
		case 0:
			w.onHeader = hook
		case 1:
			w.onWriteHeader = hook
		}
		m.Wrap(inner).ServeHTTP(w, req)
		st := "-"
		if w.status != 0 {
			st = fmt.Sprint(w.status)
		}
		if called > 0 {
			return st + "\t1\t" + encHeader(atEntry)
		}
		return st + "\t0\t" + encHeader(w.h)
	})
}

func plain(c *cors.Config, debug bool, rq request) string {
	m := new(cors.Middleware)
	if c != nil {
		cc := *c
		if err := m.Reconfigure(&cc); err != nil {
			return "cfgerr"
		}
	}
	m.SetDebug(debug)
	return runWithHook(m, rq, -1, nil)
}

func suiteSchedule(g *gen, e *emitter, n int) {
	for i := 0; i < n; i++ {
		var a, b *cors.Config
		for {
			c := g.config(100)
			if accepts(c) {
				a = &c
				break
			}
		}
		choice := g.n(4)
		if i < 16 {
			// the first sixteen cases cover {to passthrough, to another configuration} x {non-CORS GET, non-CORS OPTIONS,
			// actual request, preflight} deterministically (both orders of a and b)
			choice = i % 2
		}
		switch choice {
		case 0:
			b = nil // to passthrough
		default:
			for {
				c := g.config(100)
				if accepts(c) {
					b = &c
					break
				}
			}
		}
		if (i >= 16 && g.p(15)) || (i < 16 && i >= 8 && b != nil) {
			a, b = b, a // from passthrough
		}
		d0 := g.p(50)
		src := a
		if src == nil {
			src = b
		}
		rq := g.request(src)
		if i < 16 {
			org := "https://example.com"
			for _, o := range src.Origins {
				if o != "*" {
					org = g.probesFor(o)[0]
					break
				}
			}
			switch (i / 2) % 4 {
			case 0:
				rq = request{method: "GET"}
			case 1:
				rq = request{method: "OPTIONS"}
			case 2:
				rq = request{method: "GET", hdrs: []kv{{"Origin", []string{org}}}}
			default:
				rq = request{method: "OPTIONS", hdrs: []kv{{"Origin", []string{org}}, {"Access-Control-Request-Method", []string{"PUT"}}}}
			}
		}
		for point := 0; point < 3; point++ {
			for op := 0; op < 3; op++ {
				m := new(cors.Middleware)
				if a != nil {
					aa := *a
					m.Reconfigure(&aa)
				}
				m.SetDebug(d0)
				d1 := d0 && a != nil
				var hook func()
				newCfg, newDebug := a, d1
				switch op {
				case 0:
					hook = func() {
						if b == nil {
							m.Reconfigure(nil)
						} else {
							bb := *b
							m.Reconfigure(&bb)
						}
					}
					newCfg = b
					newDebug = d1 && b != nil
				case 1:
					hook = func() { m.SetDebug(!d1) }
					newDebug = !d1 && a != nil
				case 2:
					hook = func() { _ = m.Config() }
				}
				ran := false
				inner0 := hook
				hook = func() { ran = true; inner0() }
				line := fmt.Sprintf("pair\tC07\tpoint=%d op=%d\t%s\t%s\t%s\t%s\t%s\t%s", point, op, encConfig(a), encConfig(b), encBool(d0),
					encBytes(rq.method), encKVs(rq.hdrs), encKVs(rq.pre))
				got := runWithHook(m, rq, point, hook)
				want := plain(a, d1, rq)
				verdict := "ok"
				if got != want {
					verdict = "C07-RESPONSE-NOT-OF-ENTRY-STATE got=" + got + " want=" + want
				} else {
					// the next request sees the new state (the old one if the schedule point was never reached)
					if !ran {
						newCfg, newDebug = a, d1
					}
					got2 := runWithHook(m, rq, -1, nil)
					want2 := plain(newCfg, newDebug, rq)
					if got2 != want2 {
						verdict = "C07-NEXT-REQUEST-NOT-OF-NEW-STATE got=" + got2 + " want=" + want2
					}
				}
				e.emit(line, verdict)
			}
		}
	}
}

// stressScenarios: two histories whose set of legal outcomes is smaller than "any (configuration, debug) pair".
func stressScenarios(e *emitter) {
	cfgX := cors.Config{Origins: []string{"https://x.example"}, Methods: []string{"PUT"}}
	cfgY := cors.Config{Origins: []string{"https://y.example"}, Methods: []string{"PUT"}}
	failing := func(o string) request {
		return request{method: "OPTIONS", hdrs: []kv{{"Origin", []string{o}}, {"Access-Control-Request-Method", []string{"NOBODY"}}}}
	}
	// (1) Both orders of a concurrent SetDebug(true) and Reconfigure(nil) leave debug off; so after a later
	// Reconfigure(Y) a failing preflight must be answered as (Y, debug off).
	{
		verdict := "ok"
		want := plain(&cfgY, false, failing("https://y.example"))
		deadline := time.Now().Add(700 * time.Millisecond)
		for round := 0; time.Now().Before(deadline) && verdict == "ok"; round++ {
			m, _ := cors.NewMiddleware(cfgX)
			var wg sync.WaitGroup
			stop := make(chan struct{})
			for w := 0; w < 3; w++ {
				wg.Add(1)
				go func() {
					defer wg.Done()
					for {
						select {
						case <-stop:
							return
						default:
							m.SetDebug(true)
						}
					}
				}()
			}
			m.Reconfigure(nil)
			close(stop)
			wg.Wait()
			c := cfgY
			m.Reconfigure(&c)
			if got := runWithHook(m, failing("https://y.example"), -1, nil); got != want {
				verdict = fmt.Sprintf("C07-DEBUG-SURVIVED-PASSTHROUGH round=%d got=%s want=%s", round, got, want)
			}
		}
		e.emit("pair\tC07\tstress-scenario\tSetDebug(true) || Reconfigure(nil) ; Reconfigure(Y) ; failing preflight", verdict)
	}
	// (2) The writer only ever makes X current together with debug on: (Y,off) -> (Y,on) -> (X,on) -> (nil,off) -> (Y,off).
	// Y allows the probe (same origin, any method), X refuses its method: the probe may be answered as (X,on), as (Y,·)
	// or by the pass-through, never as (X,off) — the bare failure status.
	{
		cfgY := cors.Config{Origins: []string{"https://x.example"}, Methods: []string{"*"}}
		rq := failing("https://x.example")
		legal := map[string]bool{plain(&cfgX, true, rq): true, plain(&cfgY, false, rq): true, plain(&cfgY, true, rq): true}
		pass := runWithHook(new(cors.Middleware), rq, -1, nil)
		legal[pass] = true
		illegal := plain(&cfgX, false, rq)
		verdict := "ok"
		if legal[illegal] {
			verdict = "SCENARIO-NOT-DISCRIMINATING"
		}
		m, _ := cors.NewMiddleware(cfgY)
		var bad atomic.Value
		var readers sync.WaitGroup
		stop := make(chan struct{})
		for w := 0; w < 8; w++ {
			readers.Add(1)
			go func() {
				defer readers.Done()
				for {
					select {
					case <-stop:
						return
					default:
					}
					if got := runWithHook(m, rq, -1, nil); !legal[got] {
						bad.Store("C07-RESPONSE-OF-A-STATE-THAT-WAS-NEVER-CURRENT got=" + got)
					}
				}
			}()
		}
		deadline := time.Now().Add(700 * time.Millisecond)
		for time.Now().Before(deadline) && bad.Load() == nil {
			m.SetDebug(true)
			cx := cfgX
			m.Reconfigure(&cx)
			m.Reconfigure(nil)
			cy := cfgY
			m.Reconfigure(&cy)
		}
		close(stop)
		readers.Wait()
		if v := bad.Load(); v != nil && verdict == "ok" {
			verdict = v.(string)
		}
		e.emit("pair\tC07\tstress-scenario\t(Y,off) (Y,on) (X,on) (nil,off) cycled; failing preflights from X's origin", verdict)
	}
}

func suiteStress(g *gen, e *emitter, n int) {
	stressScenarios(e)
	for i := 0; i < n; i++ {
		var cfgs [2]cors.Config
		for k := range cfgs {
			for {
				c := g.config(100)
				if accepts(c) {
					cfgs[k] = c
					break
				}
			}
		}
		var rqs []request
		for k := 0; k < 6; k++ {
			rqs = append(rqs, g.request(&cfgs[k%2]))
		}
		// admissible answers: one per (configuration, debug) state
		admissible := make([]map[string]bool, len(rqs))
		for k, rq := range rqs {
			admissible[k] = map[string]bool{}
			for c := range cfgs {
				for _, d := range []bool{false, true} {
					admissible[k][plain(&cfgs[c], d, rq)] = true
				}
			}
		}
		var normal [2]*cors.Config
		for c := range cfgs {
			m, _ := cors.NewMiddleware(cfgs[c])
			normal[c] = m.Config()
		}
		m, _ := cors.NewMiddleware(cfgs[0])
		var bad atomic.Value
		var readers, writers sync.WaitGroup
		stop := make(chan struct{})
		for w := 0; w < 12; w++ {
			readers.Add(1)
			go func(w int) {
				defer readers.Done()
				for it := 0; ; it++ {
					select {
					case <-stop:
						return
					default:
					}
					k := (w + it) % len(rqs)
					got := runWithHook(m, rqs[k], -1, nil)
					if !admissible[k][got] {
						bad.Store("C07-RESPONSE-OF-NO-SINGLE-STATE request=" + fmt.Sprint(k) + " got=" + got)
					}
				}
			}(w)
		}
		for w := 0; w < 2; w++ {
			writers.Add(1)
			go func(w int) {
				defer writers.Done()
				for it := 0; it < 300; it++ {
					c := cfgs[(w+it)%2]
					if err := m.Reconfigure(&c); err != nil {
						bad.Store("C07-RECONFIGURE-FAILED " + err.Error())
					}
					if cfg := m.Config(); !reflect.DeepEqual(cfg, normal[0]) && !reflect.DeepEqual(cfg, normal[1]) {
						bad.Store("C07-CONFIG-OF-NO-SINGLE-STATE " + encConfig(cfg))
					}
				}
			}(w)
		}
		writers.Add(1)
		go func() {
			defer writers.Done()
			for it := 0; it < 600; it++ {
				m.SetDebug(it%2 == 0)
			}
		}()
		writers.Wait()
		close(stop)
		readers.Wait()
		verdict := "ok"
		if v := bad.Load(); v != nil {
			verdict = v.(string)
		}
		e.emit(fmt.Sprintf("pair\tC07\tstress\t%s\t%s", encConfig(&cfgs[0]), encConfig(&cfgs[1])), verdict)
	}
}
