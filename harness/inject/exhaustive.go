package main

import (
	"strconv"
	"strings"

	"github.com/jub0bs/cors"
	"github.com/jub0bs/cors/internal/headers"
	"github.com/jub0bs/cors/internal/util"
)

// Small-scope exhaustive suites: every sequence of up to `depth` tokens over a small alphabet of
// structurally meaningful tokens. Random generation samples rare conjunctions; these suites do not
// sample: within their scope every conjunction occurs.

var lexTokens = []string{"a", "b1", "1", "0", "255", "256", "01", ".", ":", "*", "[", "]", "::1", "-", "_", "/", "80", "8080", "65536", "xn--", "A", " "}
var lexPrefixes = []string{"https://", "http://", "https://*.", "http://["}

func sequences(tokens []string, depth int, f func(string)) {
	var rec func(prefix string, d int)
	rec = func(prefix string, d int) {
		f(prefix)
		if d == 0 {
			return
		}
		for _, t := range tokens {
			rec(prefix+t, d-1)
		}
	}
	rec("", depth)
}

func suiteLexX(e *emitter, depth int) {
	for _, p := range lexPrefixes {
		sequences(lexTokens, depth, func(s string) {
			lexPattern(e, p+s)
			lexParse(e, p+s)
		})
	}
}

var ip6Tokens = []string{"0", "1", "12", "abcd", "ABCD", "00", "0abc", "12345", "g", ":", "::", ".", "1.2.3.4", "255", "256", "01", "%", "eth0", "ffff", "7f00"}

// ip6x: every sequence of IPv6-text tokens between brackets, as a pattern and as an origin.
func suiteIP6X(e *emitter, depth int) {
	sequences(ip6Tokens, depth, func(s string) {
		lexPattern(e, "http://["+s+"]")
		lexParse(e, "http://["+s+"]:8080")
	})
	// every address text of up to 8 fields over {0, 1, ffff}, with `::` at every position or
	// absent, with or without an IPv4 tail: the choice of the zero run that `String` compresses, exhaustively
	vals := []string{"0", "1", "ffff"}
	const maxN = 8
	var rec func(fields []string)
	emit := func(fields []string) {
		for ell := -1; ell <= len(fields); ell++ {
			var sb strings.Builder
			for i, f := range fields {
				if i == ell {
					sb.WriteString("::")
				} else if i > 0 {
					sb.WriteString(":")
				}
				sb.WriteString(f)
			}
			if ell == len(fields) {
				sb.WriteString("::")
			}
			lexPattern(e, "http://["+sb.String()+"]")
			if len(fields) <= 6 {
				sep := ":"
				if ell == len(fields) || len(fields) == 0 {
					sep = ""
				}
				lexPattern(e, "http://["+sb.String()+sep+"127.0.0.1]")
			}
		}
	}
	rec = func(fields []string) {
		emit(fields)
		if len(fields) == maxN {
			return
		}
		for _, v := range vals {
			rec(append(fields, v))
		}
	}
	rec(nil)
}

var acrhTokens = []string{"a", "b", "ab", "abc", "c", ",", " ", "\t", "A"}

func suiteACRHX(e *emitter, depth int) {
	pool := []string{"a", "b", "ab", "abc"}
	if depth <= 4 {
		pool = pool[:3]
	}
	for mask := 0; mask < 1<<len(pool); mask++ {
		var names []string
		for i, n := range pool {
			if mask&(1<<i) != 0 {
				names = append(names, n)
			}
		}
		check := func(lines []string) {
			e.emit("check\t"+encList(names)+"\t"+encList(lines), guard(func() string {
				var set util.SortedSet
				for _, nm := range names {
					set.Add(nm)
				}
				return encBool(headers.Check(set, lines)) + " " + strconv.Itoa(int(set.MaxLen())) + " " + encList(set.ToSlice())
			}))
		}
		sequences(acrhTokens, depth, func(s string) {
			check([]string{s})
		})
		// two field lines: every split of the shorter sequences at a token boundary
		var two func(a, b string, d int)
		two = func(a, b string, d int) {
			check([]string{a, b})
			if d == 0 {
				return
			}
			for _, t := range acrhTokens[:6] {
				two(a+t, b, d-1)
				two(a, b+t, d-1)
			}
		}
		two("", "", min(depth, 3))
	}
}

var treePool = []string{"https://a.com", "https://b.a.com", "https://*.a.com", "https://*.b.a.com", "https://ba.com", "https://a.com:*",
	"https://*.a.com:*", "https://a.com:8080", "https://*.a.com:8080", "http://a.com", "http://*.a.com", "https://c.b.a.com"}

func suiteTreeX(e *emitter, k int) {
	var probes []string
	for _, h := range []string{"a.com", "b.a.com", "c.b.a.com", "d.c.b.a.com", "ba.com", "xa.com", ".a.com", "a.com."} {
		for _, sch := range []string{"https", "http"} {
			for _, port := range []string{"", ":8080", ":9"} {
				probes = append(probes, sch+"://"+h+port)
			}
		}
	}
	used := make([]bool, len(treePool))
	var rec func(sel []string, d int)
	rec = func(sel []string, d int) {
		if len(sel) > 0 {
			treeCase(e, append([]string(nil), sel...), probes)
		}
		if d == 0 {
			return
		}
		for i, p := range treePool {
			if used[i] {
				continue
			}
			used[i] = true
			rec(append(sel, p), d-1)
			used[i] = false
		}
	}
	rec(nil, k)
	_ = strings.Join
}

// validatex: every sequence of up to `depth` atoms in one list field at a time (the other fields at
// their defaults), crossed with the switches that field interacts with; then every combination of scalars.
func suiteValidateX(e *emitter, depth int) {
	base := func() cors.Config { return cors.Config{Origins: []string{"https://example.com"}} }
	seqs := func(atoms []string, f func([]string)) {
		var rec func(cur []string, d int)
		rec = func(cur []string, d int) {
			f(append([]string(nil), cur...))
			if d == 0 {
				return
			}
			for _, a := range atoms {
				rec(append(cur, a), d-1)
			}
		}
		rec(nil, depth)
	}
	bools := []bool{false, true}
	seqs([]string{"*", "Authorization", "authorization", "X-A", "x-a", "sec-x", "bad name", "Access-Control-Request-Method", "Author\u0130zation", "\u017fec-x", "X_A^b"}, func(l []string) {
		for _, cred := range bools {
			c := base()
			c.RequestHeaders, c.Credentialed = l, cred
			validateCase(e, c)
		}
	})
	seqs([]string{"*", "GET", "put", "PUT", "PATCH", "patch", "CONNECT", "bad m", "po\u017ft", "opt\u0131ons"}, func(l []string) {
		c := base()
		c.Methods = l
		validateCase(e, c)
	})
	seqs([]string{"*", "X-B", "x-b", "Set-Cookie", "Cache-Control", "Origin", "b d"}, func(l []string) {
		for _, cred := range bools {
			c := base()
			c.ResponseHeaders, c.Credentialed = l, cred
			validateCase(e, c)
		}
	})
	seqs([]string{"*", "https://a.com", "http://a.com", "http://localhost", "http://127.0.0.1", "https://*.com", "https://*.a.com", "https://a.com:*", "null", "https://a.com/"}, func(l []string) {
		if len(l) > 2 {
			return
		}
		for _, cred := range bools {
			for pna := 0; pna < 4; pna++ {
				for _, tolI := range bools {
					for _, tolP := range bools {
						c := cors.Config{Origins: l, Credentialed: cred}
						c.PrivateNetworkAccess, c.PrivateNetworkAccessInNoCORSModeOnly = pna&1 != 0, pna&2 != 0
						c.DangerouslyTolerateInsecureOrigins, c.DangerouslyTolerateSubdomainsOfPublicSuffixes = tolI, tolP
						validateCase(e, c)
					}
				}
			}
		}
	})
	// many violations in one field (an error tree far wider than usual), and a scheme one byte over the maximum
	var manyBad []string
	for i := 0; i < 300; i++ {
		manyBad = append(manyBad, "bad name "+strconv.Itoa(i))
	}
	for _, k := range []int{63, 64, 65, 100, 256, 257, 300} {
		c := base()
		c.RequestHeaders = manyBad[:k]
		validateCase(e, c)
		c = base()
		c.ResponseHeaders = manyBad[:k]
		c.MaxAgeInSeconds = -7
		validateCase(e, c)
	}
	for _, k := range []int{63, 64, 65, 66} {
		c := cors.Config{Origins: []string{strings.Repeat("s", k) + "://example.com"}}
		validateCase(e, c)
	}
	for _, ma := range []int{0, -1, -2, 1, 5, 86400, 86401} {
		for _, st := range []int{0, 199, 200, 204, 299, 300, 456, 200 + 256, -56, 200 + 65536, 299 + 65536, 204 - 65536, 1<<32 + 204} {
			c := base()
			c.MaxAgeInSeconds, c.PreflightSuccessStatus = ma, st
			validateCase(e, c)
		}
	}
}

// servex: a handful of configurations (one per decision regime) x every combination of request atoms x debug.
func suiteServeX(e *emitter, depth int) {
	cfgs := []cors.Config{
		{Origins: []string{"https://a.com"}},
		{Origins: []string{"https://a.com", "https://*.b.com:*"}, Methods: []string{"PUT", "PATCH"}, RequestHeaders: []string{"X-A", "Authorization"}, ResponseHeaders: []string{"X-B"}, MaxAgeInSeconds: 30},
		{Origins: []string{"https://a.com"}, Credentialed: true, Methods: []string{"PUT"}, RequestHeaders: []string{"X-A"}, ResponseHeaders: []string{"X-B"}, ExtraConfig: cors.ExtraConfig{PreflightSuccessStatus: 279}},
		{Origins: []string{"https://a.com"}, Credentialed: true, Methods: []string{"*"}, RequestHeaders: []string{"*"}, MaxAgeInSeconds: -1},
		{Origins: []string{"*"}, Methods: []string{"*"}, RequestHeaders: []string{"*"}, ResponseHeaders: []string{"*"}},
		{Origins: []string{"*"}, RequestHeaders: []string{"*", "Authorization"}},
		{Origins: []string{"https://a.com"}, ExtraConfig: cors.ExtraConfig{PrivateNetworkAccess: true}, Methods: []string{"PUT"}},
		{Origins: []string{"https://a.com"}, ExtraConfig: cors.ExtraConfig{PrivateNetworkAccessInNoCORSModeOnly: true}, Credentialed: true},
		{Origins: []string{"https://*.github.io", "https://a.com"}, ExtraConfig: cors.ExtraConfig{DangerouslyTolerateSubdomainsOfPublicSuffixes: true}},
		{Origins: []string{"http://*.co.uk:*"}, Credentialed: true, ExtraConfig: cors.ExtraConfig{DangerouslyTolerateSubdomainsOfPublicSuffixes: true, DangerouslyTolerateInsecureOrigins: true}},
		// `*` next to Authorization under credentialed access, in both orders, and next to a discrete name
		{Origins: []string{"https://a.com"}, Credentialed: true, Methods: []string{"PUT"}, RequestHeaders: []string{"Authorization", "*"}},
		{Origins: []string{"https://a.com"}, Credentialed: true, Methods: []string{"PUT"}, RequestHeaders: []string{"*", "Authorization", "X-A"}},
		// a single pattern with an arbitrary port (its text is not an origin)
		{Origins: []string{"https://a.com:*"}, Credentialed: true, Methods: []string{"PUT"}, RequestHeaders: []string{"X-A"}, ResponseHeaders: []string{"X-B"}},
	}
	type opt struct {
		present bool
		v       []string
	}
	origins := []opt{{false, nil}, {true, []string{"https://a.com"}}, {true, []string{"https://x.b.com:8080"}}, {true, []string{"https://evil.com"}}, {true, []string{"https://foo.github.io"}}, {true, []string{"http://foo.co.uk:81"}}, {true, []string{"https://a.com/"}}, {true, []string{""}}, {true, []string{}}, {true, []string{"https://a.com:*"}}, {true, []string{"https://a.com:8080"}}}
	acrms := []opt{{false, nil}, {true, []string{""}}, {true, []string{}}, {true, []string{"GET"}}, {true, []string{"PUT"}}, {true, []string{"put"}}, {true, []string{"DELETE"}}, {true, []string{"PUT", "GET"}}}
	acrhs := []opt{{false, nil}, {true, []string{}}, {true, []string{""}}, {true, []string{"x-a"}}, {true, []string{"authorization,x-a"}}, {true, []string{"x-a", "authorization"}}, {true, []string{" x-a\t"}}, {true, []string{"x-c"}}, {true, []string{"X-A"}}}
	acrpns := []opt{{false, nil}, {true, []string{"true"}}, {true, []string{"false"}}}
	pres := [][]kv{nil, {{"Vary", []string{"Accept-Encoding"}}}}
	if depth < 2 {
		acrhs = acrhs[:6]
	}
	for _, c := range cfgs {
		for _, method := range []string{"OPTIONS", "GET", "options"} {
			for _, o := range origins {
				for _, m := range acrms {
					for _, h := range acrhs {
						for _, pn := range acrpns {
							for _, pre := range pres {
								var rq request
								rq.method, rq.pre = method, pre
								add := func(k string, x opt) {
									if x.present {
										rq.hdrs = append(rq.hdrs, kv{k, x.v})
									}
								}
								add("Origin", o)
								add("Access-Control-Request-Method", m)
								add("Access-Control-Request-Headers", h)
								add("Access-Control-Request-Private-Network", pn)
								for _, dbg := range []bool{false, true} {
									serveCase(e, c, dbg, rq)
								}
							}
						}
					}
				}
			}
		}
	}
}

// historyx: every sequence of up to `depth` operations from {SetDebug(true), SetDebug(false), Reconfigure(nil),
// Reconfigure(A), Reconfigure(B), Reconfigure(invalid), Reconfigure(Config())}, from the zero value and from
// NewMiddleware(A), with the same observations after every operation: Config(), a preflight that fails at the
// method step (shows the debug mode), a preflight that succeeds under A, the same preflight with one more ACRH line
// naming a header nobody allows (a verdict must not depend on the preflight answered just before), an actual request.
// A second family does the same over configurations that are *relatives* of one another (same Origins with one
// tolerance switch flipped, which makes the configuration invalid; a list of the same length made of the old patterns
// with one repeated; the same list under other flags): what a Reconfigure that reuses parts of the configuration in
// force would get wrong.
func suiteHistoryX(e *emitter, depth int) {
	cfgA := cors.Config{Origins: []string{"https://a.com"}, Credentialed: true, Methods: []string{"PUT"}, RequestHeaders: []string{"X-A"}, ResponseHeaders: []string{"X-B"}, MaxAgeInSeconds: 30}
	cfgB := cors.Config{Origins: []string{"*"}, Methods: []string{"*"}, RequestHeaders: []string{"*", "Authorization"}}
	cfgI := cors.Config{Origins: []string{"https://a.com/", "*"}, Credentialed: true, Methods: []string{"CONNECT"}, MaxAgeInSeconds: -5}
	probes := []request{
		{method: "OPTIONS", hdrs: []kv{{"Origin", []string{"https://a.com"}}, {"Access-Control-Request-Method", []string{"NOBODY"}}}},
		{method: "OPTIONS", hdrs: []kv{{"Origin", []string{"https://a.com"}}, {"Access-Control-Request-Method", []string{"PUT"}}, {"Access-Control-Request-Headers", []string{"x-a"}}}},
		{method: "OPTIONS", hdrs: []kv{{"Origin", []string{"https://a.com"}}, {"Access-Control-Request-Method", []string{"PUT"}}, {"Access-Control-Request-Headers", []string{"x-a", "x-evil"}}}},
		{method: "GET", hdrs: []kv{{"Origin", []string{"https://a.com"}}}},
	}
	historyXFamily(e, depth, "x", &cfgA, []string{"D1", "D0", "RN", "RA", "RB", "RI", "RC"},
		map[string]*cors.Config{"RA": &cfgA, "RB": &cfgB, "RI": &cfgI}, probes)

	tol := cors.ExtraConfig{DangerouslyTolerateSubdomainsOfPublicSuffixes: true, DangerouslyTolerateInsecureOrigins: true}
	cfgQ := cors.Config{Origins: []string{"https://a.com", "http://b.com", "https://*.co.uk"}, Credentialed: true, Methods: []string{"PUT"}, RequestHeaders: []string{"X-A"}, ExtraConfig: tol}
	cfgQ1 := cfgQ // same Origins, public-suffix tolerance withdrawn: invalid
	cfgQ1.ExtraConfig.DangerouslyTolerateSubdomainsOfPublicSuffixes = false
	cfgQ2 := cfgQ // same Origins, insecure-origin tolerance withdrawn: invalid under credentialed access
	cfgQ2.ExtraConfig.DangerouslyTolerateInsecureOrigins = false
	cfgQ3 := cfgQ // a list of the same length made of old patterns, one repeated: b.com is no longer allowed
	cfgQ3.Origins = []string{"https://a.com", "https://a.com", "https://*.co.uk"}
	cfgQ4 := cfgQ // the same Origins in another order, anonymous, with private-network access
	cfgQ4.Origins = []string{"https://*.co.uk", "http://b.com", "https://a.com"}
	cfgQ4.Credentialed = false
	cfgQ4.ExtraConfig.PrivateNetworkAccess = true
	probesQ := []request{
		{method: "OPTIONS", hdrs: []kv{{"Origin", []string{"http://b.com"}}, {"Access-Control-Request-Method", []string{"NOBODY"}}}},
		{method: "OPTIONS", hdrs: []kv{{"Origin", []string{"http://b.com"}}, {"Access-Control-Request-Method", []string{"PUT"}}, {"Access-Control-Request-Headers", []string{"x-a"}}, {"Access-Control-Request-Private-Network", []string{"true"}}}},
		{method: "GET", hdrs: []kv{{"Origin", []string{"https://x.co.uk"}}}},
		{method: "GET", hdrs: []kv{{"Origin", []string{"http://b.com"}}}},
	}
	d := depth
	if d > 3 {
		d = 3
	}
	historyXFamily(e, d, "y", &cfgQ, []string{"D1", "RN", "RQ", "RQ1", "RQ2", "RQ3", "RQ4"},
		map[string]*cors.Config{"RQ": &cfgQ, "RQ1": &cfgQ1, "RQ2": &cfgQ2, "RQ3": &cfgQ3, "RQ4": &cfgQ4}, probesQ)
}

func historyXFamily(e *emitter, depth int, prefix string, startCfg *cors.Config, ops []string, cfgs map[string]*cors.Config, probes []request) {
	var run func(start int, seq []string)
	run = func(start int, seq []string) {
		id := prefix + strconv.Itoa(start)
		var m *cors.Middleware
		var shadow *decider
		observe := func() {
			e.emit("h.config\t"+id, guard(func() string { return encConfig(m.Config()) }))
			for _, rq := range probes {
				dec := shadow.decide(rq)
				e.emit("h.serve\t"+id+"\t"+encBytes(rq.method)+"\t"+encKVs(rq.hdrs)+"\t"+encKVs(rq.pre)+"\t"+dec, runRequest(m, rq)+"\t||\t"+dec)
			}
		}
		reconf := func(c *cors.Config, onOK func()) {
			if c == nil {
				e.emit("h.reconf\t"+id+"\tnil\t~", guard(func() string {
					if err := m.Reconfigure(nil); err != nil {
						return "err"
					}
					shadow = nil
					return "ok"
				}))
				return
			}
			cc := *c
			cc.Origins, cc.Methods, cc.RequestHeaders, cc.ResponseHeaders = append([]string(nil), c.Origins...), append([]string(nil), c.Methods...), append([]string(nil), c.RequestHeaders...), append([]string(nil), c.ResponseHeaders...)
			e.emit("h.reconf\t"+id+"\t"+encConfig(&cc)+"\t"+oracleFor(cc.Origins), guard(func() string {
				if err := m.Reconfigure(&cc); err != nil {
					return errCount(err)
				}
				onOK()
				return "ok"
			}))
		}
		if start == 0 {
			m = new(cors.Middleware)
			registerLongLived(m)
			e.emit("h.zero\t"+id, "ok")
		} else {
			c := *startCfg
			line := "h.new\t" + id + "\t" + encConfig(&c) + "\t" + oracleFor(c.Origins)
			mm, err := cors.NewMiddleware(c)
			if err != nil {
				e.emit(line, errCount(err))
				return
			}
			m = mm
			registerLongLived(m)
			shadow = newDecider(&c)
			e.emit(line, "ok")
		}
		observe()
		for _, op := range seq {
			switch op {
			case "D1", "D0":
				m.SetDebug(op == "D1")
				e.emit("h.debug\t"+id+"\t"+encBool(op == "D1"), "ok")
			case "RN":
				reconf(nil, nil)
			case "RC":
				if cfg := m.Config(); cfg == nil {
					reconf(nil, nil)
				} else {
					reconf(cfg, func() {})
				}
			default:
				c := cfgs[op]
				reconf(c, func() { shadow = newDecider(c) })
			}
			observe()
		}
	}
	var rec func(seq []string, d int)
	rec = func(seq []string, d int) {
		if len(seq) > 0 {
			for start := 0; start < 2; start++ {
				run(start, seq)
			}
		}
		if d == 0 {
			return
		}
		for _, op := range ops {
			rec(append(seq[:len(seq):len(seq)], op), d-1)
		}
	}
	rec(nil, depth)
}
