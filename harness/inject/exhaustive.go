package main

import (
	"strconv"
	"strings"

	"github.com/jub0bs/cors/internal/headers"
	"github.com/jub0bs/cors/internal/util"
)

// Small-scope exhaustive suites: every sequence of up to `depth` tokens over a small alphabet of
// structurally meaningful tokens. Random generation samples rare conjunctions; these suites do not
// sample: within their scope every conjunction occurs.

var lexTokens = []string{"a", "b1", "1", "0", "255", "256", "01", ".", ":", "*", "[", "]", "::1", "-", "_", "/", "80", "8080", "65536", "xn--", "A", " "}
var lexPrefixes = []string{"https://", "http://", "https://*.", "http://["}

func sequences(tokens []string, depth int, f func(string)) {
	var rec func(prefix string, d int)
	rec = func(prefix string, d int) {
		f(prefix)
		if d == 0 {
			return
		}
		for _, t := range tokens {
			rec(prefix+t, d-1)
		}
	}
	rec("", depth)
}

func suiteLexX(e *emitter, depth int) {
	for _, p := range lexPrefixes {
		sequences(lexTokens, depth, func(s string) {
			lexPattern(e, p+s)
			lexParse(e, p+s)
		})
	}
}

var acrhTokens = []string{"a", "b", "ab", "abc", "c", ",", " ", "\t", "A"}

func suiteACRHX(e *emitter, depth int) {
	pool := []string{"a", "b", "ab", "abc"}
	if depth <= 4 {
		pool = pool[:3]
	}
	for mask := 0; mask < 1<<len(pool); mask++ {
		var names []string
		for i, n := range pool {
			if mask&(1<<i) != 0 {
				names = append(names, n)
			}
		}
		check := func(lines []string) {
			e.emit("check\t"+encList(names)+"\t"+encList(lines), guard(func() string {
				var set util.SortedSet
				for _, nm := range names {
					set.Add(nm)
				}
				return encBool(headers.Check(set, lines)) + " " + strconv.Itoa(int(set.MaxLen())) + " " + encList(set.ToSlice())
			}))
		}
		sequences(acrhTokens, depth, func(s string) {
			check([]string{s})
		})
		// two field lines: every split of the shorter sequences at a token boundary
		var two func(a, b string, d int)
		two = func(a, b string, d int) {
			check([]string{a, b})
			if d == 0 {
				return
			}
			for _, t := range acrhTokens[:6] {
				two(a+t, b, d-1)
				two(a, b+t, d-1)
			}
		}
		two("", "", min(depth, 3))
	}
}

var treePool = []string{"https://a.com", "https://b.a.com", "https://*.a.com", "https://*.b.a.com", "https://ba.com", "https://a.com:*",
	"https://*.a.com:*", "https://a.com:8080", "https://*.a.com:8080", "http://a.com", "http://*.a.com", "https://c.b.a.com"}

func suiteTreeX(e *emitter, k int) {
	var probes []string
	for _, h := range []string{"a.com", "b.a.com", "c.b.a.com", "d.c.b.a.com", "ba.com", "xa.com", ".a.com", "a.com."} {
		for _, sch := range []string{"https", "http"} {
			for _, port := range []string{"", ":8080", ":9"} {
				probes = append(probes, sch+"://"+h+port)
			}
		}
	}
	used := make([]bool, len(treePool))
	var rec func(sel []string, d int)
	rec = func(sel []string, d int) {
		if len(sel) > 0 {
			treeCase(e, append([]string(nil), sel...), probes)
		}
		if d == 0 {
			return
		}
		for i, p := range treePool {
			if used[i] {
				continue
			}
			used[i] = true
			rec(append(sel, p), d-1)
			used[i] = false
		}
	}
	rec(nil, k)
	_ = strings.Join
}
