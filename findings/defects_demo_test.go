package cors_test

import (
	"net/http"
	"net/http/httptest"
	"strings"
	"testing"

	"github.com/jub0bs/cors"
)

func TestDefectIPv6RoundTrip(t *testing.T) {
	m, err := cors.NewMiddleware(cors.Config{Origins: []string{"http://[::1]:9090"}})
	if err != nil {
		t.Fatal(err)
	}
	cfg := m.Config()
	t.Log(cfg.Origins)
	if err := m.Reconfigure(cfg); err != nil {
		t.Fatalf("Reconfigure(Config()) failed: %v", err)
	}
}

func TestDefectSetDebugOnPassthrough(t *testing.T) {
	var m cors.Middleware
	m.SetDebug(true)
	if err := m.Reconfigure(&cors.Config{Origins: []string{"https://example.com"}}); err != nil {
		t.Fatal(err)
	}
	h := m.Wrap(http.NotFoundHandler())
	req := httptest.NewRequest("OPTIONS", "/", nil)
	req.Header.Set("Origin", "https://example.com")
	req.Header.Set("Access-Control-Request-Method", "PUT")
	rec := httptest.NewRecorder()
	h.ServeHTTP(rec, req)
	if rec.Code != http.StatusForbidden {
		t.Fatalf("debug should be off (SetDebug is a no-op on a passthrough middleware): got status %d, headers %v", rec.Code, rec.Header())
	}
}

func TestDefectLongOriginSelfMatch(t *testing.T) {
	lbl := strings.Repeat("a", 63)
	host := lbl + "." + lbl + "." + lbl + "." + strings.Repeat("a", 61) // 253 bytes
	pat := "a" + strings.Repeat("b", 63) + "://" + host + ".:65535"
	if len(pat) != 327 {
		t.Fatal(len(pat))
	}
	m, err := cors.NewMiddleware(cors.Config{Origins: []string{pat}})
	if err != nil {
		t.Fatal(err)
	}
	h := m.Wrap(http.NotFoundHandler())
	req := httptest.NewRequest("GET", "/", nil)
	req.Header.Set("Origin", pat)
	rec := httptest.NewRecorder()
	h.ServeHTTP(rec, req)
	if rec.Header().Get("Access-Control-Allow-Origin") != pat {
		t.Fatalf("accepted wildcard-free pattern presented verbatim as Origin is not allowed")
	}
}
